// C11 - thread pool: every submission runs once on a worker or is cancelled once
#include "scen_pool.h"
namespace hz {
static const Info I = {
    "C11", 1, 16, 200000, true, true,
    "rapidcheck generates (program, schedule, faults): pool of 1..3 workers, 1..3 submissions of kinds {co_await pool, co_await pool(ready awaitable), co_await pool(pending awaitable resolved by the owner), "
    "run(fn), run_detached(fn) with a counted closure guard, run(async), resume(suspend_point carrying a parked coroutine)} with harness yields, and a stop event {destructor only, owner stop() before job k, "
    "stop() from inside a pool job, stop() twice}, optionally the owner waits for the result of every submission before it stops / destroys the pool (then every submission ran, none was cancelled), optionally (>=2 workers) one job keeps its worker until another submission has started (that one must get another worker while one is idle); generated + swept schedules, spurious cv wake-ups. Oracle after the pool is destroyed: per job ran+cancelled == 1, a job submitted before stop() ran on a pool worker (is_current), "
    "cancel is observable (await_canceled_exception in the awaiting coroutine, has_value()==false on the run() future, closure destroyed uncalled), no future/coroutine left pending, no closure leaked, stop()/destructor return (deadlock detector). "
    "Non-trivial = a submission or a job execution overlapped stop(), or a context switch inside a library operation; distinct = hash(decoded program, executed switch trace).",
    scen_pool::class_names, 4, scen_pool::counter_names, 3};
const Info &info() { return I; }
void run_case(Reader &r) { scen_pool::run(r, true); }
std::string describe(Reader &r) { return scen_pool::describe(scen_pool::decode(r, true)); }
}
