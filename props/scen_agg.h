// scen_agg.h - generator_aggregator scenario (C14)
#pragma once
#include "common.h"
#include "values.h"

namespace scen_agg {

constexpr int INF_LEN = 40;     // "infinite" source: longer than the consumer ever reads
constexpr int READ_BOUND = 10;

struct Src { uint8_t n; bool infinite; bool throws; uint8_t gate_mask; uint8_t gate_yields; };  // gate before yield k if bit k set
struct Prog { bool with_arg; std::vector<Src> src; uint8_t consumer; uint8_t destroy_after; uint8_t consumer_style = 0; };    // consumer_style 1: every second access calls the aggregate for a future    // consumer 0 blocking, 1 coroutine

inline Prog decode(hz::Reader &r) {
    Prog p;
    p.with_arg = r.mod(3) == 0;
    unsigned ns = r.mod(6);
    for (unsigned i = 0; i < ns; i++) {
        Src s; s.n = (uint8_t)r.mod(5); unsigned k = r.mod(8);
        s.infinite = k == 0; s.throws = k == 1 && !s.infinite;
        s.gate_mask = (r.mod(3) == 0) ? r.u8() : 0;
        s.gate_yields = (uint8_t)r.mod(3);
        if (s.infinite) s.gate_mask &= 0x0f;
        p.src.push_back(s);
    }
    p.consumer = (uint8_t)r.mod(2);
    unsigned d = r.mod(8);
    p.destroy_after = d < 5 ? 255 : (uint8_t)(d - 4);
    p.consumer_style = (uint8_t)r.mod(2);
    return p;
}
inline std::string describe(const Prog &p) {
    hz::Desc d; d << "aggregator of " << (unsigned)p.src.size() << (p.with_arg ? " generator<int,int>" : " generator<int>") << " sources:";
    for (size_t i = 0; i < p.src.size(); i++) {
        auto &s = p.src[i];
        d << " S" << (unsigned)i << "[";
        if (s.infinite) d << "infinite"; else d << (unsigned)s.n << " values";
        if (s.throws) d << " then throws";
        if (s.gate_mask) d << ", awaits other thread (mask " << (unsigned)s.gate_mask << ")";
        d << "]";
    }
    d << "; " << (p.consumer ? "coroutine consumer (co_await next())" : "blocking consumer (next()/value())");
    if (p.destroy_after != 255) d << "; destroyed after " << (unsigned)p.destroy_after << " values";
    if (p.consumer_style) d << "; every second access calls the aggregate and reads the returned future";
    return d.s;
}

struct Gate { std::unique_ptr<cocls::future<void>> f; cocls::promise<void> p; uint8_t yields; };
struct World {
    const Prog *p;
    std::vector<std::vector<Gate>> gates;        // per source, per gated yield index (sparse: index by k)
    std::vector<std::vector<int>> gate_of;       // per source: yield k -> gate index or -1
};
struct SrcGuard { SrcGuard() { hz::slot_add(20, 1); hz::slot_add(21, 1); } ~SrcGuard() { hz::slot_add(21, -1); } SrcGuard(const SrcGuard &) = delete; };

inline int src_len(const Src &s) { return s.infinite ? INF_LEN : s.n; }

inline cocls::generator<int> src_plain(World *w, int id) {
    SrcGuard guard;
    const Src &s = w->p->src[(size_t)id];
    for (int k = 0; k < src_len(s); k++) {
        int gi = w->gate_of[(size_t)id][(size_t)k];
        if (gi >= 0) co_await *w->gates[(size_t)id][(size_t)gi].f;
        co_yield id * 1000 + k;
    }
    if (s.throws) { if (id & 1) throw val::PlainExc{id}; throw val::TestExc(id); }       // (odd sources throw a type that is not derived from std::exception)
}
inline cocls::generator<int, int> src_arg(World *w, int id) {
    SrcGuard guard;
    const Src &s = w->p->src[(size_t)id];
    int arg = co_yield nullptr;
    for (int k = 0; k < src_len(s); k++) {
        int gi = w->gate_of[(size_t)id][(size_t)k];
        if (gi >= 0) co_await *w->gates[(size_t)id][(size_t)gi].f;
        arg = co_yield id * 1000 + (arg % 10) * 100 + k;
    }
    if (s.throws) { if (id & 1) throw val::PlainExc{id}; throw val::TestExc(id); }       // (odd sources throw a type that is not derived from std::exception)
}

struct Result { std::vector<int> got; std::vector<int> args_sent; int end = -100; bool destroyed_early = false; };

template<class G, bool ARG>
void consume_blocking(G &agg, const Prog &p, Result &res, int bound) {
    for (int call = 0;; call++) {
        if ((int)res.got.size() >= bound) { res.destroyed_early = true; return; }
        int a = (3 + 7 * call) % 10;
        bool more;
        if constexpr (ARG) res.args_sent.push_back(a);
        if (p.consumer_style && (call & 1)) {
            // call style: the aggregate is called and hands out a future (no value = end of the sequence)
            try {
                if constexpr (ARG) { auto f = agg(a); f.sync(); if (!f.has_value()) { res.end = -1; return; } res.got.push_back(f.value()); }
                else { auto f = agg(); f.sync(); if (!f.has_value()) { res.end = -1; return; } res.got.push_back(f.value()); }
            } catch (const val::TestExc &e) { res.end = 1000 + e.id; return; } catch (const val::PlainExc &e) { res.end = 1000 + e.id; return; }
            continue;
        }
        if constexpr (ARG) more = (bool)agg.next(a); else more = (bool)agg.next();
        if (!more) { res.end = -1; return; }
        try { res.got.push_back(agg.value()); }
        catch (const val::TestExc &e) { res.end = 1000 + e.id; return; } catch (const val::PlainExc &e) { res.end = 1000 + e.id; return; }
    }
}
template<class G, bool ARG>
cocls::async<void> consume_coro(G &agg, const Prog &p, Result &res, int bound) {
    int argslot[2];
    for (int call = 0;; call++) {
        if ((int)res.got.size() >= bound) { res.destroyed_early = true; co_return; }
        int &a = argslot[call & 1]; a = (3 + 7 * call) % 10;
        bool more;
        if constexpr (ARG) res.args_sent.push_back(a);
        if (p.consumer_style && (call & 1)) {
            bool stop = false;
            try {
                if constexpr (ARG) { auto f = agg(a); bool hv = co_await f.has_value(); if (!hv) { res.end = -1; stop = true; } else res.got.push_back(f.value()); }
                else { auto f = agg(); bool hv = co_await f.has_value(); if (!hv) { res.end = -1; stop = true; } else res.got.push_back(f.value()); }
            } catch (const val::TestExc &e) { res.end = 1000 + e.id; stop = true; } catch (const val::PlainExc &e) { res.end = 1000 + e.id; stop = true; }
            if (stop) co_return;
            continue;
        }
        if constexpr (ARG) { more = co_await agg.next(a); } else { more = co_await agg.next(); }
        if (!more) { res.end = -1; co_return; }
        try { res.got.push_back(agg.value()); }
        catch (const val::TestExc &e) { res.end = 1000 + e.id; co_return; } catch (const val::PlainExc &e) { res.end = 1000 + e.id; co_return; }
    }
}

template<bool ARG>
void run_t(const Prog &p) {
    using G = std::conditional_t<ARG, cocls::generator<int, int>, cocls::generator<int>>;
    Result res;
    bool any_inf = false, any_async = false; int total = 0;
    for (auto &s : p.src) { any_inf |= s.infinite; any_async |= s.gate_mask != 0; total += src_len(s); }
    int bound = p.destroy_after != 255 ? p.destroy_after : (any_inf ? READ_BOUND : total + 5);
    {
        World w; w.p = &p;
        w.gates.resize(p.src.size()); w.gate_of.resize(p.src.size());
        for (size_t i = 0; i < p.src.size(); i++) {
            int len = src_len(p.src[i]);
            w.gate_of[i].assign((size_t)len, -1);
            for (int k = 0; k < len && k < 8; k++) if (p.src[i].gate_mask & (1 << k)) {
                Gate g; g.f.reset(new cocls::future<void>()); g.p = g.f->get_promise(); g.yields = p.src[i].gate_yields;
                w.gate_of[i][(size_t)k] = (int)w.gates[i].size();
                w.gates[i].push_back(std::move(g));
            }
        }
        std::thread resolver;
        if (any_async) resolver = std::thread([&w] {
            // round-robin over the sources so that no source has to wait for another one's later gates
            bool more = true;
            for (size_t round = 0; more; round++) {
                more = false;
                for (auto &gs : w.gates) if (round < gs.size()) { more = true; hz::upoints(gs[round].yields); gs[round].p(); }
            }
        });
        {
            // the list of sources is handed over to the aggregate: either a vector that outlives it, or (odd number of
            // sources) a vector local to a helper that is gone before the aggregate is accessed for the first time
            std::vector<G> outer;
            auto fill = [&](std::vector<G> &list) { for (size_t i = 0; i < p.src.size(); i++) { if constexpr (ARG) list.push_back(src_arg(&w, (int)i)); else list.push_back(src_plain(&w, (int)i)); } };
            G agg = [&]() -> G {
                if (p.src.size() % 2) { std::vector<G> list; fill(list); return cocls::generator_aggregator(std::move(list)); }
                fill(outer); return cocls::generator_aggregator(std::move(outer));
            }();
            if (p.consumer == 0) consume_blocking<G, ARG>(agg, p, res, bound);
            else { cocls::future<void> done = consume_coro<G, ARG>(agg, p, res, bound).start(); done.wait(); }
            // the aggregate is destroyed here, from ordinary code (possibly parked at a yield with
            // asynchronous sources in flight: the destructor has to wait for them)
        }
        if (any_async) resolver.join();
    }
    // ---- oracle ----
    std::vector<int> next_k(p.src.size(), 0);
    std::vector<int> pending_arg(p.src.size(), ARG && !res.args_sent.empty() ? res.args_sent[0] : 0);
    for (size_t i = 0; i < res.got.size(); i++) {
        int v = res.got[i]; int s = v / 1000, a = (v / 100) % 10, k = v % 100;
        HZ_CHECK(s >= 0 && s < (int)p.src.size(), "value %d does not come from any source", v);
        HZ_CHECK(k == next_k[(size_t)s], "source %d: consumer received its value #%d where #%d was due (lost, duplicated or reordered)", s, k, next_k[(size_t)s]);
        HZ_CHECK(k < src_len(p.src[(size_t)s]), "source %d yielded only %d values", s, src_len(p.src[(size_t)s]));
        next_k[(size_t)s]++;
        if constexpr (ARG) {
            HZ_CHECK(a == pending_arg[(size_t)s], "value #%d of source %d carries argument %d, but the argument routed to that source was %d", k, s, a, pending_arg[(size_t)s]);
            // the argument of the NEXT call goes to the source whose value was returned by this one
            if (i + 1 < res.args_sent.size()) pending_arg[(size_t)s] = res.args_sent[i + 1];
        }
    }
    if (!res.destroyed_early) {
        std::set<int> throwers;
        for (size_t s = 0; s < p.src.size(); s++) {
            HZ_CHECK(next_k[s] == src_len(p.src[s]), "aggregate ended although source %zu delivered only %d of its %d values", s, next_k[s], src_len(p.src[s]));
            if (p.src[s].throws) throwers.insert(1000 + (int)s);
        }
        if (throwers.empty()) HZ_CHECK(res.end == -1, "aggregate ended with %d (plain end expected)", res.end);
        else HZ_CHECK(throwers.count(res.end), "a source threw but the consumer saw %d at the end (expected one of the sources' exceptions)", res.end);
    }
    HZ_CHECK(hz::slot_get(21) == 0, "%ld source generators still alive after the aggregate was destroyed", hz::slot_get(21));
    hz::set_class((any_async ? 1 : 0) | (any_inf ? 2 : 0) | (ARG ? 4 : 0));
    hz::set_nontrivial(p.src.size() >= 2);
    hz::count(0, res.got.size());
}

inline void run(hz::Reader &r) { Prog p = decode(r); if (p.with_arg) run_t<true>(p); else run_t<false>(p); }

static const char *const class_names[] = {"sync", "async", "sync+infinite", "async+infinite", "arg:sync", "arg:async", "arg:sync+infinite", "arg:async+infinite"};
static const char *const counter_names[] = {"values_consumed"};

} // namespace scen_agg
