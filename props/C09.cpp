// C09 - awaitable queue: each item delivered exactly once, in order
#include "scen_queue.h"
namespace hz {
static const Info I = {
    "C09", 1, 130, 60000, true, true,
    "first byte selects {stateful history (2/3), threads (1/3)}. History: queue<int|Counted|void>, up to 60 ops of push(next consecutive value) / pop (future kept) / unblock_pop(e) / "
    "detached coroutine consumer / probes, then destruction; after EVERY op every outstanding pop future, every coroutine consumer, size() and empty() are compared with a reference model "
    "(FIFO of items, FIFO of waiting pops). Threads: 1..3 producers x 1..3 consumers (coroutine or blocking) on the virtual runtime with generated/swept schedules; oracle = multiset delivered == pushed, "
    "no duplicates, per-consumer per-producer order, single consumer sees non-overlapping pushes in order, queue empty at the end, no deadlock. "
    "Non-trivial = (history) a pop was parked and later served, (threads) >=1 context switch; distinct = hash(decoded program, executed switch trace).",
    scen_queue::class_names, 6, scen_queue::counter_names, 4};
const Info &info() { return I; }
void run_case(Reader &r) { scen_queue::run(r, false); }
std::string describe(Reader &r) { return scen_queue::describe(r, false); }
}
