// scen_queue.h - awaitable queue scenarios: C09 (queue), C10 (limited_queue), C03 (TSan)
#pragma once
#include "common.h"
#include "values.h"

namespace scen_queue {

// ---------------------------------------------------------------- payload adaptors
template<int VT> struct QT;
template<> struct QT<0> { using T = int; static int mk(int v) { return v; } static int dec(const int &v) { return v; } };
template<> struct QT<1> { using T = val::Counted; static val::Counted mk(int v) { return val::Counted(v); } static int dec(const val::Counted &v) { return v.val(); } };
template<> struct QT<2> { using T = void; };
// items constructed in place from SEVERAL arguments: push(n, v) makes a vector of n copies of v, n = 2 + v % 3
// (a type with an initializer_list constructor: {n, v} would be a different item)
template<> struct QT<3> { using T = std::vector<int>;
    static int dec(const std::vector<int> &x) { if (x.size() < 2 || x.size() > 4) return -3; int v = x[0]; for (int e : x) if (e != v) return -3; return x.size() == (size_t)(2 + v % 3) ? v : -3; } };

// observation codes: >=0 value (0 for void), 1000+id exception, -1 canceled, -2 not ready, -3 torn
template<class F> int observe(F &f) {
    if (!f.ready()) return -2;
    try {
        if constexpr (std::is_void_v<typename F::value_type>) { f.value(); return 0; }
        else if constexpr (std::is_same_v<typename F::value_type, int>) return f.value();
        else if constexpr (std::is_same_v<typename F::value_type, std::vector<int>>) return QT<3>::dec(f.value());
        else return f.value().val();
    }
    catch (const val::TestExc &e) { return 1000 + e.id; }
    catch (const cocls::await_canceled_exception &) { return -1; }
    catch (const cocls::value_not_ready_exception &) { return -2; }
    catch (...) { return -4; }
}

// ================================================================ (a) sequential histories
struct Op { uint8_t code, a; };
struct SeqProg { uint8_t vt; uint8_t limit; std::vector<Op> ops; };   // limit 0 = unbounded queue

inline SeqProg decode_seq(hz::Reader &r, bool bounded) {
    SeqProg p;
    p.vt = (uint8_t)r.mod(bounded ? 2 : 4);
    unsigned lraw = r.i < r.n ? r.p[r.i] : 0;       // (the upper bits of the limit byte select the fourth item type: older replay files keep their meaning)
    p.limit = bounded ? (uint8_t)(1 + r.mod(4)) : 0;
    if (bounded && ((lraw >> 2) % 5) == 4) p.vt = 3;
    unsigned n = 0;
    while (r.more() && n < 60) { Op o; o.code = (uint8_t)r.mod(10); o.a = r.u8(); p.ops.push_back(o); n++; }
    return p;
}
static const char *seq_opn[] = {"push", "push", "push", "pop(future kept)", "pop(future kept)", "unblock_pop(e)", "unblock_push(e)/probe", "coroutine consumer", "size/empty probe", "push"};
inline std::string describe_seq(const SeqProg &p) {
    static const char *vt[] = {"int", "Counted", "void", "vector<int> built in place by push(n, v)"};
    hz::Desc d;
    if (p.limit) d << "limited_queue<" << vt[p.vt] << ">(limit " << (unsigned)p.limit << ")"; else d << "queue<" << vt[p.vt] << ">";
    d << ", " << (unsigned)p.ops.size() << " ops:";
    for (auto &o : p.ops) d << " " << seq_opn[o.code];
    d << "; then destroy the queue";
    return d.s;
}

struct SeqStats { unsigned parked_served = 0, blocked = 0, unblocked = 0, ops = 0, reentrant = 0; };

template<int VT, bool BOUNDED>
struct SeqRun {
    using T = typename QT<VT>::T;
    using Q = std::conditional_t<BOUNDED, cocls::limited_queue<T>, cocls::queue<T>>;
    using PopF = cocls::future<T>;
    using PushF = cocls::future<void>;
    std::unique_ptr<Q> q;
    // real side
    std::vector<std::unique_ptr<PopF>> pops;          // every pop future ever created
    std::vector<std::unique_ptr<PushF>> pushes;       // bounded: every push future
    std::vector<int> consumer_result;                 // coroutine consumers: observation (-100 = still waiting)
    // model side
    std::deque<int> items;                            // values waiting in the queue
    struct Waiter { bool is_coro; int idx; };
    std::deque<Waiter> waiting;                       // pops waiting, FIFO
    struct Blocked { int value; int push_idx; };
    std::deque<Blocked> blocked;                      // bounded: blocked pushes FIFO
    std::vector<int> pop_expect;                      // per pop future: expected observation (-2 pending)
    std::vector<int> push_expect;                     // per push future: expected observation
    std::vector<int> consumer_expect;
    int next_value = 1;
    unsigned limit = 0;
    SeqStats st;
    // a hand-written awaiter registered on a kept pop / push future: its resume function runs INSIDE the queue operation that
    // completes the future and looks at the queue again (documented to be possible: the queue unlocks before it resolves)
    struct ReCb : cocls::awaiter {
        SeqRun *r; int fired = 0; bool is_push; int idx;
        ReCb(SeqRun *r_, bool p_, int i_) : r(r_), is_push(p_), idx(i_) { set_resume_fn(&fn); }
        static cocls::suspend_point<void> fn(cocls::awaiter *me, void *) noexcept {
            auto *c = static_cast<ReCb *>(me); c->fired++;
            if (c->r->q && !c->r->destroying) { c->r->reentered += c->r->q->size() + (c->r->q->empty() ? 1 : 0); c->r->st.reentrant++; }
            return {};
        }
    };
    std::vector<std::unique_ptr<ReCb>> cbs; bool destroying = false; std::size_t reentered = 0;
    template<class F> void watch(F &f, bool is_push, int idx) {
        if (f.ready()) return;
        cbs.emplace_back(new ReCb(this, is_push, idx));
        if (!f.operator co_await().subscribe(cbs.back().get())) cbs.back()->fired++;
    }

    cocls::async<void> consumer(int idx) {
        int code;
        try {
            if constexpr (VT == 2) { co_await q->pop(); code = 0; }
            else { T v = co_await q->pop(); code = QT<VT>::dec(v); }
        }
        catch (const val::TestExc &e) { code = 1000 + e.id; }
        catch (const cocls::await_canceled_exception &) { code = -1; }
        consumer_result[(size_t)idx] = code;
    }

    void model_deliver(int v) {           // an item becomes available to the oldest waiting pop
        Waiter w = waiting.front(); waiting.pop_front();
        if (w.is_coro) consumer_expect[(size_t)w.idx] = v; else pop_expect[(size_t)w.idx] = v;
        st.parked_served++;
    }
    void do_push(bool watched = false) {
        int v = VT == 2 ? 0 : next_value++;
        int push_idx = -1;
        // odd values are pushed from a variable of the caller (an lvalue): the queue takes a copy, the variable stays intact
        if constexpr (VT == 3) {      // (two ints: vector<int>(n, v))
            if constexpr (BOUNDED) { push_idx = (int)pushes.size(); pushes.emplace_back(new PushF(q->push(2 + v % 3, v))); } else q->push(2 + v % 3, v);
            goto pushed;
        }
        if constexpr (VT != 2 && VT != 3) if (v & 1) {
            typename QT<VT>::T x = QT<VT>::mk(v);
            if constexpr (BOUNDED) { push_idx = (int)pushes.size(); pushes.emplace_back(new PushF(q->push(x))); } else q->push(x);
            HZ_CHECK(QT<VT>::dec(x) == v, "push(lvalue) changed the caller's variable: it reads %d after pushing %d (moved from instead of copied)", QT<VT>::dec(x), v);
            goto pushed;
        }
        if constexpr (BOUNDED && VT != 3) {
            push_idx = (int)pushes.size();
            pushes.emplace_back(new PushF(q->push(QT<VT>::mk(v))));
        } else {
            if constexpr (VT == 2) q->push(); else if constexpr (VT != 3) q->push(QT<VT>::mk(v));
        }
        pushed:
        // model
        if (!waiting.empty()) { model_deliver(v); if (BOUNDED) push_expect.push_back(0); }
        else if (!BOUNDED || items.size() < limit) { items.push_back(v); if (BOUNDED) push_expect.push_back(0); }
        else { blocked.push_back({v, push_idx}); push_expect.push_back(-2); st.blocked++; }
        if constexpr (BOUNDED) if (watched && push_idx >= 0) watch(*pushes[(size_t)push_idx], true, push_idx);
    }
    void model_pop(Waiter w) {
        if (items.empty()) { waiting.push_back(w); return; }
        int v = items.front(); items.pop_front();
        if (w.is_coro) consumer_expect[(size_t)w.idx] = v; else pop_expect[(size_t)w.idx] = v;
        if (!blocked.empty()) {
            Blocked b = blocked.front(); blocked.pop_front();
            items.push_back(b.value);
            push_expect[(size_t)b.push_idx] = 0;
            st.unblocked++;
        }
    }
    void do_pop(bool watched = false) {
        int idx = (int)pops.size();
        pop_expect.push_back(-2);
        pops.emplace_back(new PopF(q->pop()));
        if (watched) watch(*pops.back(), false, idx);
        model_pop({false, idx});
    }
    void do_consumer() {
        int idx = (int)consumer_result.size();
        consumer_result.push_back(-100); consumer_expect.push_back(-100);
        consumer(idx).detach();
        model_pop({true, idx});
    }
    void do_unblock_pop(int e) {
        if constexpr (!BOUNDED) {
            bool r = q->unblock_pop(std::make_exception_ptr(val::TestExc(e)));
            bool expect = !waiting.empty();
            HZ_CHECK(r == expect, "unblock_pop returned %d while %zu pops were waiting", (int)r, waiting.size());
            if (expect) {
                Waiter w = waiting.front(); waiting.pop_front();
                if (w.is_coro) consumer_expect[(size_t)w.idx] = 1000 + e; else pop_expect[(size_t)w.idx] = 1000 + e;
            }
        }
    }
    void do_unblock_push(int e) {
        if constexpr (BOUNDED) {
            bool r = q->unblock_push(std::make_exception_ptr(val::TestExc(e)));
            bool expect = !blocked.empty();
            HZ_CHECK(r == expect, "unblock_push returned %d while %zu pushes were blocked", (int)r, blocked.size());
            if (expect) { Blocked b = blocked.front(); blocked.pop_front(); push_expect[(size_t)b.push_idx] = 1000 + e; }
        }
    }
    void compare(const char *after) {
        for (size_t i = 0; i < pops.size(); i++) {
            int got = observe(*pops[i]);
            HZ_CHECK(got == pop_expect[i], "after %s: pop #%zu shows %d, model expects %d (>=0 value, -2 pending, -1 canceled, 1000+ exception)", after, i, got, pop_expect[i]);
        }
        for (size_t i = 0; i < pushes.size(); i++) {
            int got = observe(*pushes[i]);
            HZ_CHECK(got == push_expect[i], "after %s: push #%zu future shows %d, model expects %d (0 completed, -2 pending, 1000+ exception)", after, i, got, push_expect[i]);
        }
        for (auto &c : cbs) {
            int want = c->is_push ? push_expect[(size_t)c->idx] : pop_expect[(size_t)c->idx];
            HZ_CHECK(c->fired == (want != -2 ? 1 : 0), "after %s: the awaiter registered on %s #%d ran %d times, the model says that operation is %s", after, c->is_push ? "push" : "pop", c->idx, c->fired, want != -2 ? "complete" : "still pending");
        }
        for (size_t i = 0; i < consumer_result.size(); i++)
            HZ_CHECK(consumer_result[i] == consumer_expect[i], "after %s: coroutine consumer #%zu received %d, model expects %d (-100 = still waiting)", after, i, consumer_result[i], consumer_expect[i]);
        if (q) {
            HZ_CHECK(q->size() == items.size(), "after %s: size() = %zu, model holds %zu items", after, q->size(), items.size());
            HZ_CHECK(q->empty() == items.empty(), "after %s: empty() = %d, model holds %zu items", after, (int)q->empty(), items.size());
        }
    }
    void run(const SeqProg &p) {
        limit = p.limit;
        if constexpr (BOUNDED) q.reset(new Q(p.limit)); else q.reset(new Q());
        for (auto &o : p.ops) {
            switch (o.code) {
                case 0: case 1: case 2: case 9: do_push((o.a & 0x80) != 0); break;
                case 3: case 4: do_pop((o.a & 0x80) != 0); break;
                case 5: if (BOUNDED) do_pop(); else do_unblock_pop(o.a % 8); break;
                case 6: if (BOUNDED) do_unblock_push(o.a % 8); break;
                case 7: do_consumer(); break;
                default: break;
            }
            st.ops++;
            compare(seq_opn[o.code]);
        }
        // destruction completes every waiting pop (and blocked push) as canceled
        for (auto &w : waiting) { if (w.is_coro) consumer_expect[(size_t)w.idx] = -1; else pop_expect[(size_t)w.idx] = -1; }
        waiting.clear();
        for (auto &b : blocked) push_expect[(size_t)b.push_idx] = -1;
        blocked.clear();
        destroying = true;
        q.reset();
        compare("queue destruction");
    }
};

template<int VT, bool BOUNDED>
inline void run_seq_t(const SeqProg &p) {
    SeqStats st;
    {
        SeqRun<VT, BOUNDED> R;
        R.run(p);
        st = R.st;
    }
    if constexpr (VT == 1) {
        val::check_counted_balance("end of case");
    }
    hz::set_class((st.parked_served ? 1 : 0) | (st.blocked ? 2 : 0));
    hz::set_nontrivial(BOUNDED ? st.blocked > 0 : st.parked_served > 0);
    hz::count(0, st.parked_served); hz::count(1, st.blocked); hz::count(2, st.unblocked); hz::count(3, st.reentrant);
}

inline void run_seq(const SeqProg &p) {
    if (p.limit) { if (p.vt == 0) run_seq_t<0, true>(p); else if (p.vt == 3) run_seq_t<3, true>(p); else run_seq_t<1, true>(p); }
    else { if (p.vt == 0) run_seq_t<0, false>(p); else if (p.vt == 1) run_seq_t<1, false>(p); else if (p.vt == 2) run_seq_t<2, false>(p); else run_seq_t<3, false>(p); }
}

// ================================================================ (b) threads on vrt
struct Party { uint8_t flavour; uint8_t count; uint8_t yields; };   // flavour 0 coroutine, 1 blocking
struct MtProg { uint8_t limit; std::vector<Party> prod, cons; uint8_t unblocks = 0; uint8_t monitor = 0; };   // monitor: another thread polls size()/empty() while the others work   // unblocks: unblock_pop(e) calls issued by another thread (unbounded queue)

inline MtProg decode_mt(hz::Reader &r, bool bounded) {
    MtProg p;
    p.limit = bounded ? (uint8_t)(1 + r.mod(3)) : 0;
    unsigned np = 1 + r.mod(3), nc = 1 + r.mod(3);
    unsigned total = 0;
    for (unsigned i = 0; i < np; i++) { Party x; x.flavour = (uint8_t)r.mod(2); x.count = (uint8_t)(1 + r.mod(3)); x.yields = (uint8_t)r.mod(3); total += x.count; p.prod.push_back(x); }
    // consumers share exactly the produced number of items
    for (unsigned i = 0; i < nc; i++) { Party x; x.flavour = (uint8_t)r.mod(2); x.count = 0; x.yields = (uint8_t)r.mod(3); p.cons.push_back(x); }
    for (unsigned k = 0; k < total; k++) p.cons[r.mod(nc)].count++;
    if (!bounded && r.mod(3) == 0) p.unblocks = (uint8_t)(1 + r.mod(2));
    if (bounded && r.mod(3) == 1) p.unblocks = (uint8_t)(1 + r.mod(2));      // bounded queue: unblock_push(e) calls
    p.monitor = (uint8_t)(r.mod(3) == 1);
    return p;
}
inline std::string describe_mt(const MtProg &p) {
    hz::Desc d;
    if (p.limit) d << "limited_queue<int>(limit " << (unsigned)p.limit << "), threads:"; else d << "queue<int>, threads:";
    for (size_t i = 0; i < p.prod.size(); i++) d << " P" << (unsigned)i << "[" << (p.prod[i].flavour ? "blocking" : "coroutine") << " x" << (unsigned)p.prod[i].count << ", yield*" << (unsigned)p.prod[i].yields << "]";
    for (size_t i = 0; i < p.cons.size(); i++) d << " C" << (unsigned)i << "[" << (p.cons[i].flavour ? "pop().wait()" : "co_await pop()") << " x" << (unsigned)p.cons[i].count << ", yield*" << (unsigned)p.cons[i].yields << "]";
    if (p.unblocks && !p.limit) d << " + another thread calls unblock_pop(e) x" << (unsigned)p.unblocks << " (a failed pop is retried)";
    if (p.monitor) d << " + a monitor thread polls size()/empty()";
    if (p.unblocks && p.limit) d << " + another thread calls unblock_push(e) x" << (unsigned)p.unblocks << " (a failed push - its item was withdrawn - is retried)";
    return d.s;
}

template<bool BOUNDED>
struct MtRun {
    using Q = std::conditional_t<BOUNDED, cocls::limited_queue<int>, cocls::queue<int>>;
    std::unique_ptr<Q> q;
    const MtProg *p;
    std::vector<std::vector<int>> got;      // per consumer, in receive order
    struct PushRec { int v; int t_begin, t_end; };
    std::vector<std::vector<PushRec>> pushed;
    std::vector<int> exc_seen;              // per consumer: pops that failed with the unblock exception
    std::vector<int> push_exc_seen;         // per producer: pushes that failed with the unblock exception (item withdrawn, pushed again)
    int unblock_true = 0;
    // bounded queue: a push that had to wait is watched by a hand-written awaiter, which runs inside the queue operation that
    // completes it and notes when THAT operation began (each thread notes the begin of its current queue operation)
    static int &cur_op_begin() { static thread_local int t = 0; return t; }
    struct WaitAw : cocls::awaiter {
        int resolver_begin = 0; std::atomic<int> fired{0};
        WaitAw() { set_resume_fn(&fn); }
        static cocls::suspend_point<void> fn(cocls::awaiter *me, void *) noexcept { auto *w = static_cast<WaitAw *>(me); w->resolver_begin = cur_op_begin(); w->fired.store(1, std::memory_order_release); return {}; }
    };
    struct BlockedIv { int t_reg, resolver_begin; };
    std::vector<std::vector<BlockedIv>> blocked_iv;     // per producer
    std::vector<std::vector<BlockedIv>> waiting_iv;     // per consumer (unbounded queue): pops that had to wait, watched the same way
    struct UnblockCall { int tb, te; bool r; };
    std::vector<UnblockCall> unblock_calls;

    cocls::async<void> prod_coro(int i) {
        const Party &x = p->prod[(size_t)i];
        for (int k = 0; k < x.count; k++) {
            hz::upoints(x.yields);
            PushRec rec{i * 1000 + k, hz::tick(), 0};
            cur_op_begin() = rec.t_begin;
            if constexpr (BOUNDED) {
                bool failed = false;
                try { co_await q->push(rec.v); } catch (const val::TestExc &) { failed = true; }
                if (failed) { push_exc_seen[(size_t)i]++; k--; continue; }
            }
            else co_await q->push(rec.v);
            rec.t_end = hz::tick();
            pushed[(size_t)i].push_back(rec);
        }
    }
    void prod_thread(int i) { prod_thread_body(i); hz::slot_add(18, 1); }
    void prod_thread_body(int i) {
        const Party &x = p->prod[(size_t)i];
        if (x.flavour == 0) { cocls::future<void> f = prod_coro(i).start(); f.wait(); return; }
        for (int k = 0; k < x.count; k++) {
            hz::upoints(x.yields);
            PushRec rec{i * 1000 + k, hz::tick(), 0};
            if constexpr (BOUNDED) {
                cur_op_begin() = hz::tick();
                cocls::future<void> f = q->push(rec.v);
                if (!f.ready()) {
                    WaitAw aw; int t_reg = hz::tick();
                    if (f.operator co_await().subscribe(&aw)) { hz::slot_add(17, 1); while (!aw.fired.load(std::memory_order_acquire)) vrt::yield(); hz::slot_add(17, -1); blocked_iv[(size_t)i].push_back({t_reg, aw.resolver_begin}); }
                }
                try { f.value(); } catch (const val::TestExc &) { push_exc_seen[(size_t)i]++; k--; continue; }
            }
            else { cur_op_begin() = hz::tick(); q->push(rec.v); }
            rec.t_end = hz::tick();
            pushed[(size_t)i].push_back(rec);
        }
    }
    cocls::async<void> cons_coro(int i) {
        const Party &x = p->cons[(size_t)i];
        for (int k = 0; k < x.count; k++) {
            hz::upoints(x.yields);
            bool ok = false; int v = 0;
            cur_op_begin() = hz::tick();
            try { v = co_await q->pop(); ok = true; } catch (const val::TestExc &) { exc_seen[(size_t)i]++; }
            if (ok) got[(size_t)i].push_back(v); else k--;      // pop failed by unblock_pop: try again
        }
    }
    void cons_thread(int i) { cons_thread_body(i); hz::slot_add(20, 1); }
    void cons_thread_body(int i) {
        const Party &x = p->cons[(size_t)i];
        if (x.flavour == 0) { cocls::future<void> f = cons_coro(i).start(); f.wait(); return; }
        for (int k = 0; k < x.count; k++) {
            hz::upoints(x.yields);
            cur_op_begin() = hz::tick();
            if constexpr (!BOUNDED) {
                // a pop that has to wait is watched by a hand-written awaiter (see WaitAw)
                cocls::future<int> f = q->pop();
                if (!f.ready()) {
                    WaitAw aw; int t_reg = hz::tick();
                    if (f.operator co_await().subscribe(&aw)) { hz::slot_add(19, 1); while (!aw.fired.load(std::memory_order_acquire)) vrt::yield(); hz::slot_add(19, -1); waiting_iv[(size_t)i].push_back({t_reg, aw.resolver_begin}); }
                }
                try { int v = f.value(); got[(size_t)i].push_back(v); } catch (const val::TestExc &) { exc_seen[(size_t)i]++; k--; }
            } else {
                try { int v = q->pop().wait(); got[(size_t)i].push_back(v); } catch (const val::TestExc &) { exc_seen[(size_t)i]++; k--; }
            }
        }
    }
    void run(const MtProg &prog) {
        p = &prog;
        if constexpr (BOUNDED) q.reset(new Q(prog.limit)); else q.reset(new Q());
        got.resize(prog.cons.size()); pushed.resize(prog.prod.size()); exc_seen.assign(prog.cons.size(), 0); push_exc_seen.assign(prog.prod.size(), 0); blocked_iv.resize(prog.prod.size()); waiting_iv.resize(prog.cons.size());
        std::vector<std::thread> th;
        if constexpr (BOUNDED) if (prog.unblocks) th.emplace_back([this, &prog] {
            for (unsigned k = 0; k < prog.unblocks; k++) { hz::upoints(1 + k);
                // (the last call waits until some watched push is blocked - or every producer is done - so that it has a target)
                if (k + 1 == prog.unblocks) while (hz::slot_get(17) == 0 && hz::slot_get(18) < (long)prog.prod.size()) vrt::yield();
                int tb = hz::tick(); cur_op_begin() = tb; bool r = q->unblock_push(std::make_exception_ptr(val::TestExc(9))); unblock_calls.push_back({tb, hz::tick(), r}); if (r) unblock_true++; }
        });
        if constexpr (!BOUNDED) if (prog.unblocks) th.emplace_back([this, &prog] {
            for (unsigned k = 0; k < prog.unblocks; k++) {
                hz::upoints(1 + k);
                // (the last call waits until some watched pop is waiting - or every consumer is done - so that it has a target)
                if (k + 1 == prog.unblocks) while (hz::slot_get(19) == 0 && hz::slot_get(20) < (long)prog.cons.size()) vrt::yield();
                int tb = hz::tick(); cur_op_begin() = tb; bool r = q->unblock_pop(std::make_exception_ptr(val::TestExc(9))); unblock_calls.push_back({tb, hz::tick(), r}); if (r) unblock_true++;
            }
        });
        if (prog.monitor) th.emplace_back([this] {
            for (int k = 0; k < 3; k++) { hz::upoint(); std::size_t n = q->size(); bool e = q->empty(); hz::slot_add(13, (long)n + (e ? 1 : 0)); }     // (what it reads is not judged: another thread may act in between)
        });
        for (size_t i = 0; i < prog.cons.size(); i++) th.emplace_back([this, i] { cons_thread((int)i); });
        for (size_t i = 0; i < prog.prod.size(); i++) th.emplace_back([this, i] { prod_thread((int)i); });
        for (auto &t : th) t.join();
        // ---- oracle ----
        std::vector<int> all_got, all_pushed;
        for (auto &g : got) all_got.insert(all_got.end(), g.begin(), g.end());
        for (auto &v : pushed) for (auto &r : v) all_pushed.push_back(r.v);
        std::sort(all_got.begin(), all_got.end()); std::sort(all_pushed.begin(), all_pushed.end());
        for (size_t i = 1; i < all_got.size(); i++) HZ_CHECK(all_got[i] != all_got[i - 1], "item %d was delivered twice", all_got[i]);
        HZ_CHECK(all_got == all_pushed, "delivered items differ from pushed items (%zu delivered, %zu pushed): an item was lost or invented", all_got.size(), all_pushed.size());
        for (size_t c = 0; c < got.size(); c++) {
            std::map<int, int> last;
            for (int v : got[c]) {
                int pr = v / 1000, seq = v % 1000;
                auto it = last.find(pr);
                HZ_CHECK(it == last.end() || it->second < seq, "consumer %zu received item %d of producer %d after item %d (producer order violated)", c, seq, pr, it == last.end() ? -1 : it->second);
                last[pr] = seq;
            }
        }
        if (got.size() == 1) {
            // single consumer: pushes that did not overlap in time arrive in push order
            std::map<int, size_t> pos;
            for (size_t i = 0; i < got[0].size(); i++) pos[got[0][i]] = i;
            for (auto &va : pushed) for (auto &a : va) for (auto &vb : pushed) for (auto &b : vb)
                if (a.t_end < b.t_begin) HZ_CHECK(pos[a.v] < pos[b.v], "single consumer received %d (pushed t=%d..%d) after %d (pushed t=%d..%d)", a.v, a.t_begin, a.t_end, b.v, b.t_begin, b.t_end);
        }
        int push_exc_total = 0; for (int e : push_exc_seen) push_exc_total += e;
        if constexpr (BOUNDED) HZ_CHECK(push_exc_total == unblock_true, "unblock_push reported success %d times but %d pushes failed with its exception (exactly the oldest blocked push must fail)", unblock_true, push_exc_total);
        // unblock_push reports 'nothing was blocked' only if that is so: a push that waited since before the call began and was
        // completed by an operation that began after the call had returned was blocked throughout the call
        if constexpr (BOUNDED) for (auto &u : unblock_calls) if (!u.r) for (auto &v : blocked_iv) for (auto &b : v)
            HZ_CHECK(!(b.t_reg < u.tb && b.resolver_begin > u.te), "unblock_push (t=%d..%d) reported that no push was blocked although a push was blocked from t=%d until an operation that began at t=%d completed it", u.tb, u.te, b.t_reg, b.resolver_begin);
        if constexpr (!BOUNDED) for (auto &u : unblock_calls) if (!u.r) for (auto &v : waiting_iv) for (auto &b : v)
            HZ_CHECK(!(b.t_reg < u.tb && b.resolver_begin > u.te), "unblock_pop (t=%d..%d) reported that no pop was waiting although a pop waited from t=%d until an operation that began at t=%d completed it", u.tb, u.te, b.t_reg, b.resolver_begin);
        int exc_total = 0; for (int e : exc_seen) exc_total += e;
        if constexpr (!BOUNDED) HZ_CHECK(exc_total == unblock_true, "unblock_pop reported success %d times but %d pops failed with its exception (exactly the oldest waiting pop must fail)", unblock_true, exc_total);
        HZ_CHECK(q->empty() && q->size() == 0, "queue not empty after every item was consumed (size %zu)", q->size());
        q.reset();
    }
};

inline void run_mt(const MtProg &p) {
    if (p.limit) { MtRun<true> R; R.run(p); } else { MtRun<false> R; R.run(p); }
    const vrt::Stats &st = vrt::stats();
    hz::set_class(4 + (st.preempt_in_lib ? 1 : 0));
    hz::set_nontrivial(st.switches > 0 && p.prod.size() + p.cons.size() >= 2);
}

// first byte: 0..1 sequential history, 2 threads
inline void run(hz::Reader &r, bool bounded) {
    unsigned sel = r.mod(3);
    if (sel < 2) run_seq(decode_seq(r, bounded)); else run_mt(decode_mt(r, bounded));
}
inline std::string describe(hz::Reader &r, bool bounded) {
    unsigned sel = r.mod(3);
    if (sel < 2) return "history: " + describe_seq(decode_seq(r, bounded));
    return "threads: " + describe_mt(decode_mt(r, bounded));
}

static const char *const class_names[] = {"history:plain", "history:parked-pop-served", "history:push-blocked", "history:parked+blocked", "threads:no-lib-preempt", "threads:preempted-in-library"};
static const char *const counter_names[] = {"parked_pops_served", "pushes_blocked", "pushes_unblocked_by_pop", "completions_that_reentered_the_queue_from_inside_the_completing_operation"};

} // namespace scen_queue
