// common.h - first include of every property harness TU
#pragma once
#include "../engine/interpose.h"
#include "../engine/harness.h"

#include <cocls/common.h>
#include <cocls/awaiter.h>
#include <cocls/future.h>
#include <cocls/async.h>
#include <cocls/mutex.h>
#include <cocls/queue.h>
#include <cocls/thread_pool.h>
#include <cocls/scheduler.h>
#include <cocls/generator.h>
#include <cocls/generator_aggregator.h>
#include <cocls/signal.h>
#include <cocls/publisher.h>
#include <cocls/shared_future.h>
#include <cocls/callback_awaiter.h>
#include <cocls/future_conv.h>
#include <cocls/coro_storage.h>
#include <cocls/suspend_point.h>
#include <cocls/resume.h>

namespace hz {

inline void upoint() { vrt::point(vrt::K_USER, nullptr); }
inline void upoints(unsigned n) { for (unsigned i = 0; i < n; i++) upoint(); }

// text builder for describe()
struct Desc {
    std::string s;
    Desc &operator<<(const char *t) { s += t; return *this; }
    Desc &operator<<(const std::string &t) { s += t; return *this; }
    Desc &operator<<(long v) { s += std::to_string(v); return *this; }
    Desc &operator<<(int v) { s += std::to_string(v); return *this; }
    Desc &operator<<(unsigned v) { s += std::to_string(v); return *this; }
    Desc &operator<<(unsigned long v) { s += std::to_string(v); return *this; }
};
} // namespace hz
