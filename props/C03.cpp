// C03 - cross-thread operations are data-race free and publish results safely.
// TSan variant of the multi-threaded scenarios; the first program byte selects the scenario.
#include "scen_future.h"
#include "scen_mutex.h"
#include "scen_queue.h"
#include "scen_pool.h"
#include "scen_sched.h"
#include "scen_pub.h"
#include "scen_shared.h"
#include "scen_storage.h"
#include "scen_signal.h"

namespace hz {
static const char *const class_names[] = {"future", "mutex", "queue", "limited_queue", "thread_pool", "scheduler", "publisher", "shared_future", "reusable_storage_mtsafe", "signal"};
static const char *const counter_names[] = {"c0", "c1", "c2", "c3", "c4", "c5"};
static const Info I = {
    "C03", 2, 71, 200000, true, false,
    "the first program byte selects a multi-threaded scenario {future: 1..2 resolvers x 1..3 waiters incl. polling ready() and late subscribers; mutex: 2..4 contenders; queue / limited_queue: producer and consumer threads; "
    "thread_pool: submissions against stop(); scheduler: thread and thread-pool mode with sleepers, cancellers, interval and destruction; publisher: publisher thread against subscriber threads; shared_future: resolver against copying/awaiting/dropping workers; "
    "reusable_storage_mtsafe: two threads creating and finishing coroutines; signal: histories with listeners subscribing from another thread}; the rest of the program is that scenario's generated program; executed under ThreadSanitizer (clang++, halt on first report) on the virtual runtime, whose baton is invisible to TSan "
    "(no happens-before edges of its own; atomic_thread_fence is modelled by __tsan_acquire on the atomics read since the last fence) with generated schedules and the 1-preemption sweep. "
    "Oracle: TSan data-race report + the scenario's own value/checksum oracle. Non-trivial = at least three threads existed and at least one context switch happened; "
    "distinct = hash(decoded program, executed switch trace).",
    class_names, 10, counter_names, 6};
const Info &info() { return I; }
void run_case(Reader &r) {
    unsigned sel = r.mod(10);
    switch (sel) {
        case 0: scen_future::run(r, scen_future::M_C03); break;
        case 1: scen_mutex::run(r, scen_mutex::O_EXCLUSION); break;
        case 2: scen_queue::run_mt(scen_queue::decode_mt(r, false)); break;
        case 3: scen_queue::run_mt(scen_queue::decode_mt(r, true)); break;
        case 4: scen_pool::run(r, false); break;
        case 5: { scen_sched::RunProg p = scen_sched::decode_run(r); if (p.mode == 0) p.mode = 1; scen_sched::run_run(p); } break;
        case 6: scen_pub::run_mt(scen_pub::decode_mt(r)); break;
        case 7: scen_shared::run(r); break;
        case 8: scen_storage::run_mt(scen_storage::decode_mt(r)); break;
        default: c15::run(r); break;
    }
    set_class(sel);
    set_nontrivial(vrt::stats().threads > 2 && vrt::stats().switches > 0);
}
std::string describe(Reader &r) {
    unsigned sel = r.mod(10);
    switch (sel) {
        case 0: return "future: " + scen_future::describe(scen_future::decode(r, scen_future::M_C03));
        case 1: return "mutex: " + scen_mutex::describe(scen_mutex::decode(r));
        case 2: return "queue: " + scen_queue::describe_mt(scen_queue::decode_mt(r, false));
        case 3: return "limited_queue: " + scen_queue::describe_mt(scen_queue::decode_mt(r, true));
        case 4: return "thread_pool: " + scen_pool::describe(scen_pool::decode(r, false));
        case 5: { scen_sched::RunProg p = scen_sched::decode_run(r); if (p.mode == 0) p.mode = 1; return "scheduler: " + scen_sched::describe_run(p); }
        case 6: return "publisher: " + scen_pub::describe_mt(scen_pub::decode_mt(r));
        case 7: return "shared_future: " + scen_shared::describe(scen_shared::decode(r));
        case 8: return "storage: " + scen_storage::describe_mt(scen_storage::decode_mt(r));
        default: return "signal: " + c15::describe(c15::decode(r));
    }
}
}
