// C03 - cross-thread operations are data-race free and publish results safely.
// TSan variant of the multi-threaded scenarios; the first program byte selects the scenario.
#include "scen_future.h"
#include "scen_mutex.h"

namespace hz {
static const char *const class_names[] = {"future", "mutex"};
static const char *const counter_names[] = {"c0", "c1", "c2"};
static const Info I = {
    "C03", 1, 61, 60000, true, false,
    "the first program byte selects a multi-threaded scenario {future: 1..2 resolvers x 1..3 waiters incl. polling ready() and late subscribers; mutex: 2..4 contenders}; "
    "the rest of the program is that scenario's generated program; executed under ThreadSanitizer (clang++, halt on first report) on the virtual runtime, whose baton is invisible to TSan "
    "(no happens-before edges of its own; atomic_thread_fence is modelled by __tsan_acquire on the atomics read since the last fence) with generated schedules and the 1-preemption sweep. "
    "Oracle: TSan data-race report + the scenario's own value/checksum oracle. Non-trivial = at least two threads performed interposed operations and at least one context switch happened; "
    "distinct = hash(decoded program, executed switch trace).",
    class_names, 2, counter_names, 3};
const Info &info() { return I; }
void run_case(Reader &r) {
    unsigned sel = r.mod(2);
    if (sel == 0) scen_future::run(r, scen_future::M_C03);
    else scen_mutex::run(r, scen_mutex::O_EXCLUSION);
    set_class(sel);
    set_nontrivial(vrt::stats().threads > 2 && vrt::stats().switches > 0);
}
std::string describe(Reader &r) {
    unsigned sel = r.mod(2);
    if (sel == 0) return "future: " + scen_future::describe(scen_future::decode(r, scen_future::M_C03));
    return "mutex: " + scen_mutex::describe(scen_mutex::decode(r));
}
}
