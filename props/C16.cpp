// C16 - publisher: subscribers see a gap-free, ordered, duplicate-free stream
#include "scen_pub.h"
namespace hz {
static const Info I = {
    "C16", 1, 160, 100000, true, true,
    "first byte selects {stateful history (2/3), threads (1/3)}. History: queue config max in {unlimited,1..5}, 1<=min<=max; up to 50 ops of publish(v == its stream position) / publish batch / subscribe recent | at a position inside the "
    "retained min window | by copy, in all three modes / next() awaited by a coroutine (parks when nothing is ready), blocking when the model says ready, or polled with next_ready() / kick, kick_me, leave / close; then the publisher is destroyed. "
    "Reference stream model per subscriber: all_values -> received run contiguous, duplicate-free, increasing, starting right after the subscription point; the FIRST end-of-stream indication is legitimate only if closed-and-drained, kicked or lag > max "
    "(nothing is checked after it - unspecified); skip modes strictly increasing, skip_to_recent == newest; next() never suspends while unread values exist; close/destroy wakes every parked subscriber. Threads: a publisher thread (values, a batch, then close or destroy) "
    "against 1..3 subscriber threads (coroutine or blocking) registered before the first value on an unlimited queue: each all_values subscriber sees exactly 1..N. Non-trivial = (history) a read with lag >= 2 or a parked subscriber woken, (threads) >=1 context switch; "
    "distinct = hash(decoded program, executed switch trace).",
    scen_pub::class_names, 4, scen_pub::counter_names, 5};
const Info &info() { return I; }
void run_case(Reader &r) { scen_pub::run(r); }
std::string describe(Reader &r) { return scen_pub::describe(r); }
}
