// C06 - a suspend point never loses or duplicates a ready coroutine
#include "common.h"
#include <cocls/self.h>

namespace c06 {

constexpr int MAXH = 40, MAXSP = 6;

// minimal parked coroutine: every resumption is counted, then it parks again
struct Parked {
    struct promise_type {
        Parked get_return_object() { return Parked{std::coroutine_handle<promise_type>::from_promise(*this)}; }
        std::suspend_always initial_suspend() noexcept { return {}; }
        std::suspend_always final_suspend() noexcept { return {}; }
        void return_void() {}
        void unhandled_exception() { std::terminate(); }
    };
    std::coroutine_handle<promise_type> h;
};
struct World { int count[MAXH] = {}; int order[4 * MAXH]; int norder = 0; };
inline Parked parked(World *w, int id) {
    for (;;) {
        w->count[id]++;
        if (w->norder < 4 * MAXH) w->order[w->norder++] = id;
        co_await std::suspend_always{};
    }
}

// a coroutine type that knows nothing about the library: starts eagerly, no ready queue is installed for it
struct Foreign {
    struct promise_type {
        Foreign get_return_object() { return Foreign{std::coroutine_handle<promise_type>::from_promise(*this)}; }
        std::suspend_never initial_suspend() noexcept { return {}; }
        std::suspend_always final_suspend() noexcept { return {}; }
        void return_void() {}
        void unhandled_exception() { std::terminate(); }
    };
    std::coroutine_handle<promise_type> h;
};
struct Op { uint8_t code, a, b, c; };
struct Prog { bool coro_mode; bool foreign = false; std::vector<Op> ops; };   // foreign: the driver is a coroutine of a type that does not run under the library's ready queue

inline Prog decode(hz::Reader &r) {
    Prog p;
    uint8_t hb = r.u8();
    p.coro_mode = hb & 1;
    p.foreign = p.coro_mode && ((hb >> 1) % 3) == 2;
    unsigned n = 0;
    while (r.more() && n < 64) {
        Op o; o.code = (uint8_t)r.mod(13); o.a = r.u8(); o.b = r.u8(); o.c = r.u8();
        p.ops.push_back(o); n++;
    }
    return p;
}

static const char *opn[] = {"new sp(h)", "sp<<h", "sp<<sp", "sp=move(sp)", "move-construct", "pop", "clear", "destroy", "co_await sp", "burst",
                            "typed round-trip", "typed co_await", "co_await sp that also carries the awaiting coroutine (self)"};
inline std::string describe(const Prog &p) {
    hz::Desc d;
    d << (p.foreign ? "coroutine mode with a driver coroutine of a foreign type (no ready queue active while it runs)" : p.coro_mode ? "coroutine mode" : "normal mode") << ", " << (unsigned)p.ops.size() << " ops:";
    for (auto &o : p.ops) d << " " << opn[o.code] << "(" << (unsigned)o.a << "," << (unsigned)o.b << ")";
    return d.s;
}

struct Model {
    // per suspend point: set of handle ids it owns
    std::vector<std::vector<int>> sp;           // index-aligned with the real pool (live objects only)
    std::vector<int> loose;                     // popped, un-owned handles
    int expected[MAXH] = {};                    // how many times each handle should have been resumed
    int next_fresh = 0;
    unsigned maxheld = 0;
};

struct Run {
    World w;
    Model m;
    std::vector<Parked> tasks;
    std::vector<std::unique_ptr<cocls::suspend_point<void>>> pool;
    bool coro_mode = false;
    unsigned pending_checks = 0;
    unsigned self_awaits = 0; int driver_epoch = 0;

    std::coroutine_handle<> H(int id) { return tasks[id].h; }
    int id_of(std::coroutine_handle<> h) { for (int i = 0; i < (int)tasks.size(); i++) if (tasks[i].h.address() == h.address()) return i; return -1; }
    // a handle to hand over: a loose one or a fresh one; -1 if none left
    int take_handle(uint8_t sel) {
        if (!m.loose.empty() && (sel & 1)) { int id = m.loose.back(); m.loose.pop_back(); return id; }
        if (m.next_fresh < MAXH) return m.next_fresh++;
        if (!m.loose.empty()) { int id = m.loose.back(); m.loose.pop_back(); return id; }
        return -1;
    }
    void check_sizes(const char *after) {
        for (size_t i = 0; i < pool.size(); i++) {
            HZ_CHECK(pool[i]->size() == m.sp[i].size(), "after %s: suspend point %zu reports size %zu, model holds %zu handles", after, i, pool[i]->size(), m.sp[i].size());
            HZ_CHECK(pool[i]->empty() == m.sp[i].empty(), "after %s: suspend point %zu empty()=%d, model holds %zu handles", after, i, (int)pool[i]->empty(), m.sp[i].size());
            if (m.sp[i].size() > m.maxheld) m.maxheld = (unsigned)m.sp[i].size();
        }
    }
    // in normal mode everything released so far has run; in coroutine mode only after the driver paused
    void check_counts(const char *after) {
        for (int i = 0; i < MAXH; i++)
            HZ_CHECK(w.count[i] == m.expected[i], "after %s: coroutine %d was resumed %d times, expected %d (lost or duplicated)", after, i, w.count[i], m.expected[i]);
    }
    void release_all(size_t k) { for (int id : m.sp[k]) m.expected[id]++; m.sp[k].clear(); }
    void drop(size_t k) { pool.erase(pool.begin() + (long)k); m.sp.erase(m.sp.begin() + (long)k); }
};

// applies op i; ops that need the driver coroutine (co_await) are handled by the caller
inline void apply(Run &R, const Op &o) {
    Model &m = R.m;
    size_t n = R.pool.size();
    unsigned code = o.code;
    if (n == 0 && code != 0) code = 0;
    size_t k = n ? o.a % n : 0, j = n ? o.b % n : 0;
    switch (code) {
        case 0: {
            if (n >= MAXSP) { code = 1; goto add_one; }
            int id = R.take_handle(o.c);
            if (id < 0) { R.pool.push_back(std::make_unique<cocls::suspend_point<void>>()); m.sp.emplace_back(); break; }
            R.pool.push_back(std::make_unique<cocls::suspend_point<void>>(R.H(id)));
            m.sp.push_back({id});
        } break;
        case 1: add_one: {
            int id = R.take_handle(o.c);
            if (id < 0) break;
            *R.pool[k] << R.H(id);
            m.sp[k].push_back(id);
        } break;
        case 2: case 3: {
            if (k == j) {
                // merging a suspend point with ITSELF (aliases in generic code): it keeps exactly what it has
                cocls::suspend_point<void> &alias = *R.pool[j];
                if (code == 2) *R.pool[k] << std::move(alias); else *R.pool[k] = std::move(alias);
                break;
            }
            if (code == 2) *R.pool[k] << std::move(*R.pool[j]);
            else *R.pool[k] = std::move(*R.pool[j]);
            m.sp[k].insert(m.sp[k].end(), m.sp[j].begin(), m.sp[j].end());
            m.sp[j].clear();
        } break;
        case 4: {
            if (n >= MAXSP) break;
            R.pool.push_back(std::make_unique<cocls::suspend_point<void>>(std::move(*R.pool[k])));
            m.sp.push_back(m.sp[k]);
            m.sp[k].clear();
        } break;
        case 5: if ((o.c & 0x80) && !m.sp[k].empty()) {
            // drained handle by handle until it is empty (as thread_pool::resume(suspend_point&) does): the object stays usable,
            // e.g. as the target of a later assignment
            while (!m.sp[k].empty()) {
                std::coroutine_handle<> h = R.pool[k]->pop();
                int id = R.id_of(h);
                auto it = std::find(m.sp[k].begin(), m.sp[k].end(), id);
                HZ_CHECK(id >= 0 && it != m.sp[k].end(), "pop() returned a handle (%d) that suspend point %zu does not own", id, k);
                m.sp[k].erase(it); m.loose.push_back(id);
            }
            HZ_CHECK(R.pool[k]->empty(), "suspend point not empty after every handle was popped");
        } else {
            std::coroutine_handle<> h = R.pool[k]->pop();
            if (m.sp[k].empty()) {
                HZ_CHECK(h.address() == std::noop_coroutine().address(), "pop() on an empty suspend point returned a handle");
            } else {
                int id = R.id_of(h);
                auto it = std::find(m.sp[k].begin(), m.sp[k].end(), id);
                HZ_CHECK(id >= 0 && it != m.sp[k].end(), "pop() returned a handle (%d) that suspend point %zu does not own", id, k);
                m.sp[k].erase(it);
                m.loose.push_back(id);
            }
        } break;
        case 6: R.release_all(k); R.pool[k]->clear(); break;
        case 7: R.release_all(k); R.pool[k].reset(); R.drop(k); break;
        case 9: {
            unsigned cnt = 1 + o.c % 8;
            // steer across the inline->heap transition and the doublings
            static const unsigned edges[] = {4, 7, 13, 25};
            for (unsigned e : edges) if ((o.b & 3) == 0 && m.sp[k].size() < e && e - m.sp[k].size() <= 12) { cnt = e - (unsigned)m.sp[k].size(); break; }
            for (unsigned i = 0; i < cnt; i++) {
                int id = R.take_handle(0);
                if (id < 0) break;
                *R.pool[k] << R.H(id);
                m.sp[k].push_back(id);
            }
        } break;
        case 10: {
            int v = 1000 + o.c;
            cocls::suspend_point<int> t(std::move(*R.pool[k]), v);
            HZ_CHECK(R.pool[k]->size() == 0, "moved-from suspend point still reports %zu handles", R.pool[k]->size());
            HZ_CHECK(t.size() == m.sp[k].size(), "typed suspend point holds %zu handles, %zu were moved in", t.size(), m.sp[k].size());
            int got = t;
            HZ_CHECK(got == v, "typed suspend point carries %d, producer supplied %d", got, v);
            *R.pool[k] << std::move(t);
        } break;
        default: break;
    }
}

template<class Ret, bool foreign>
Ret driver_t(Run &R, const Prog &p) {
    for (size_t i = 0; i < p.ops.size(); i++) {
        Op o = p.ops[i];
        size_t n = R.pool.size();
        if (o.code == 12 && n) {
            // the awaited suspend point contains the awaiting coroutine's own handle (cocls::self) among others:
            // everybody - the awaiting coroutine included - is resumed exactly once
            size_t k = o.a % n;
            cocls::suspend_point<void> me = co_await cocls::self();
            cocls::suspend_point<void> t;
            if (o.b & 1) { t << std::move(me); t << std::move(*R.pool[k]); }
            else { t << std::move(*R.pool[k]); t << std::move(me); }
            for (unsigned e = 0; e < (unsigned)(o.c % 4); e++) { int id = R.take_handle(0); if (id < 0) break; t << R.H(id); R.m.expected[id]++; }
            R.release_all(k);
            R.self_awaits++;
            int epoch = ++R.driver_epoch;
            co_await std::move(t);
            HZ_CHECK(epoch == R.driver_epoch, "the awaiting coroutine was resumed a second time from an earlier co_await (its own handle was queued twice)");
            // (if the awaiting coroutine's own handle happened to be the one popped for the direct transfer it continues
            //  at once and the others are still queued: their counts are checked at the next suspension / final pause)
        } else
        if ((o.code == 8 || o.code == 11) && n) {
            size_t k = o.a % n;
            bool carried = !R.m.sp[k].empty();
            if (o.code == 8) {
                R.release_all(k);
                co_await std::move(*R.pool[k]);
                HZ_CHECK(R.pool[k]->size() == 0, "suspend point not empty after co_await");
            } else {
                int v = 2000 + o.c;
                R.release_all(k);
                cocls::suspend_point<int> t(std::move(*R.pool[k]), v);
                int got = co_await std::move(t);
                HZ_CHECK(got == v, "co_await on a typed suspend point returned %d, producer supplied %d", got, v);
            }
            // every coroutine carried by the awaited suspend point - and everything released
            // earlier - has run by the time the awaiting coroutine continues
            if (carried) R.check_counts("co_await sp");
        } else {
            apply(R, o);
        }
        R.check_sizes(opn[o.code]);
        // a foreign driver runs without a ready queue (unless it was itself resumed from a nested one): whatever it releases runs at once
        if constexpr (foreign) { if (!cocls::coro_queue::is_active()) R.check_counts(opn[o.code]); }
    }
    if constexpr (!foreign) {
        co_await cocls::pause();
        R.check_counts("driver pause at the end");
    }
}
inline cocls::async<void> driver(Run &R, const Prog &p) { return driver_t<cocls::async<void>, false>(R, p); }

inline void run(hz::Reader &r) {
    Prog p = decode(r);
    unsigned maxheld = 0;
    bool heap = false;
    {
        Run R;
        R.coro_mode = p.coro_mode;
        R.tasks.reserve(MAXH);
        for (int i = 0; i < MAXH; i++) R.tasks.push_back(parked(&R.w, i));
        if (p.foreign) {
            Foreign d = driver_t<Foreign, true>(R, p);
            HZ_CHECK(d.h.done(), "driver coroutine (foreign type) did not finish: a co_await on a suspend point never resumed it");
            HZ_CHECK(!cocls::coro_queue::is_active(), "coroutine queue still active after the foreign driver returned");
            R.check_counts("foreign driver finished");
            d.h.destroy();
        } else if (p.coro_mode) {
            cocls::future<void> f = driver(R, p).start();
            HZ_CHECK(f.ready(), "driver coroutine did not finish");
        } else {
            for (auto o : p.ops) {
                if (o.code == 8 || o.code == 11 || o.code == 12) o.code = 6;
                apply(R, o);
                R.check_sizes(opn[o.code]);
                R.check_counts(opn[o.code]);      // normal mode: released coroutines run immediately
            }
        }
        // destroy what is left: destruction resumes the remaining coroutines
        while (!R.pool.empty()) { R.release_all(0); R.pool[0].reset(); R.drop(0); }
        R.check_counts("final destruction");
        HZ_CHECK(!cocls::coro_queue::is_active(), "coroutine queue still active after the history");
        // loose (popped) handles were never resumed by anybody
        for (int id : R.m.loose) HZ_CHECK(R.w.count[id] == R.m.expected[id], "popped coroutine %d was resumed behind the caller's back", id);
        maxheld = R.m.maxheld;
        heap = maxheld >= 4;
        for (auto &t : R.tasks) t.h.destroy();
    }
    hz::set_class(maxheld <= 3 ? 0 : maxheld <= 6 ? 1 : maxheld <= 12 ? 2 : maxheld <= 24 ? 3 : 4);
    hz::set_nontrivial(heap);
    hz::count(0, maxheld); hz::count(1, p.foreign ? 1 : 0);
}

static const char *const class_names[] = {"max<=3 (inline)", "max 4..6", "max 7..12", "max 13..24", "max>24"};
static const char *const counter_names[] = {"sum_max_handles", "histories_with_foreign_driver"};

} // namespace c06

namespace hz {
static const Info I = {
    "C06", 1, 257, 60000, false, true,
    "stateful byte-decoded histories (rapidcheck): header {normal | coroutine mode | coroutine mode with a driver of a foreign coroutine type, i.e. co_await on suspend points while no ready queue is active}, up to 64 ops over a pool of <=6 suspend points and <=40 parked coroutine handles: "
    "construct(h), <<h, <<sp, move-assign (merge), move-construct, pop (handle returns to a loose pool and may be re-added), clear, destroy, co_await from the driver coroutine, "
    "burst (steered across 3->4, 6->7, 12->13, 24->25), typed suspend_point<int> round-trip and co_await. Reference model = multiset of handles per object; after every op size()/empty() "
    "agree with the model and (normal mode: immediately; coroutine mode: at the next co_await/pause) every released handle was resumed exactly once; moved-from objects resume nothing; "
    "typed value == supplied value; allocation balance 0; ASan. Non-trivial = some object held >=4 handles (heap storage); distinct = hash(decoded history).",
    c06::class_names, 5, c06::counter_names, 2};
const Info &info() { return I; }
void run_case(Reader &r) { c06::run(r); }
std::string describe(Reader &r) { return c06::describe(c06::decode(r)); }
}
