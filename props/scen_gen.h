// scen_gen.h - generator scenarios: C13 (single generator), building block for C14
#pragma once
#include "common.h"
#include "values.h"

namespace scen_gen {

// ---- body script ----
enum StepKind : uint8_t { ST_YIELD, ST_GATE_READY, ST_GATE_THREAD, ST_GATE_CONSUMER, ST_THROW, ST_RETURN };
struct Step { uint8_t kind; uint8_t yields; };
// access styles
enum Style : uint8_t { S_NEXT_VALUE, S_ITER, S_RANGE_FOR, S_FUTURE_WAIT, S_CO_NEXT, S_CO_FUTURE, S_FUTURE_SELF_RESOLVE, S_COUNT };

struct Prog {
    uint8_t gkind;                 // 0 generator<int>, 1 generator<Counted>, 2 generator<int,int>
    std::vector<Step> script;      // implicit return at the end
    std::vector<uint8_t> styles;   // style per consumer access (cycled)
    uint8_t destroy_after;         // 255 = never; else destroy after that many received values (if parked at a yield)
    bool plain_consumer;           // consumer is ordinary blocking code on the main thread (synchronous styles only)
    bool move_between = false;     // the generator object is moved away and back between some accesses
    bool keep_awaiter = false;     // the object returned by next() is kept and co_awaited again for every further "co_await next()" access
};

inline Prog decode(hz::Reader &r) {
    Prog p;
    p.gkind = (uint8_t)r.mod(3);
    unsigned n = r.mod(9);
    for (unsigned i = 0; i < n; i++) {
        Step s; unsigned k = r.mod(10);
        s.kind = k < 5 ? ST_YIELD : k == 5 ? ST_GATE_READY : k == 6 ? ST_GATE_THREAD : k == 7 ? ST_GATE_CONSUMER : k == 8 ? ST_THROW : ST_RETURN;
        s.yields = (uint8_t)r.mod(3);
        p.script.push_back(s);
        if (s.kind == ST_THROW || s.kind == ST_RETURN) break;
    }
    unsigned ns = 1 + r.mod(6);
    for (unsigned i = 0; i < ns; i++) p.styles.push_back((uint8_t)r.mod(S_COUNT));
    unsigned d = r.mod(8);
    p.destroy_after = d < 5 ? 255 : (uint8_t)(d - 5);
    p.plain_consumer = r.mod(3) == 0;
    if (p.plain_consumer) {
        // blocking consumer: awaited operations are completed by the other thread, never by the consumer itself
        for (auto &s : p.script) if (s.kind == ST_GATE_CONSUMER) s.kind = ST_GATE_THREAD;
        for (auto &st : p.styles) if (st == S_CO_NEXT || st == S_CO_FUTURE || st == S_FUTURE_SELF_RESOLVE) st = (uint8_t)(st % 4);
    }
    p.move_between = r.mod(2) == 1;
    p.keep_awaiter = r.mod(2) == 1;
    return p;
}

inline std::string describe(const Prog &p) {
    static const char *gk[] = {"generator<int>", "generator<Counted>", "generator<int,int>"};
    static const char *sk[] = {"yield", "await ready", "await pending(other thread)", "await pending(consumer resolves)", "throw", "return"};
    static const char *st[] = {"next()+value()", "iterator", "range-for", "g()+wait", "co_await next()", "co_await g()", "g()+resolve gate+value"};
    hz::Desc d; d << (p.plain_consumer ? "blocking consumer, " : "coroutine consumer, ") << gk[p.gkind] << " body:";
    for (auto &s : p.script) d << " " << sk[s.kind];
    d << " (return); access styles:";
    for (auto s : p.styles) d << " " << st[s];
    if (p.move_between) d << "; the generator object is moved away and back between accesses";
    if (p.keep_awaiter) d << "; co_await next() re-awaits ONE kept awaiter object (each co_await of it performs one step)";
    if (p.destroy_after != 255) d << "; destroyed after " << (unsigned)p.destroy_after << " values";
    return d.s;
}

// guard in the body: constructed once, destroyed once
struct BodyGuard { BodyGuard() { hz::slot_add(20, 1); hz::slot_add(21, 1); } ~BodyGuard() { hz::slot_add(21, -1); hz::slot_add(22, 1); } BodyGuard(const BodyGuard &) = delete; };

struct Gates {
    std::vector<std::unique_ptr<cocls::future<void>>> fut;
    std::vector<cocls::promise<void>> prom;
    std::vector<uint8_t> kind, yields;
};

template<int GK> struct GT;
template<> struct GT<0> { using G = cocls::generator<int>; static int mk(int v) { return v; } static int dec(const int &v) { return v; } };
template<> struct GT<1> { using G = cocls::generator<val::Counted>; static val::Counted mk(int v) { return val::Counted(v); } static int dec(const val::Counted &v) { return v.val(); } };
template<> struct GT<2> { using G = cocls::generator<int, int>; static int mk(int v) { return v; } static int dec(const int &v) { return v; } };

// what the consumer should see: values in order, then how it ends
struct Expect { std::vector<int> values; int end; };   // end: 0 normal end, 1000+id exception
template<int GK> Expect expectation(const Prog &p) {
    Expect e; e.end = 0; int idx = 0;
    for (auto &s : p.script) {
        if (s.kind == ST_YIELD) { e.values.push_back(GK == 2 ? 100 * idx + (7 + idx) : 50 + idx); idx++; }
        else if (s.kind == ST_THROW) { e.end = 1000 + 3; break; }
        else if (s.kind == ST_RETURN) break;
    }
    return e;
}

// (non-template coroutines: g++ 12 ICEs on `co_yield nullptr` inside a template)
#define SCEN_GEN_BODY_LOOP(YIELD_STMT) \
    for (size_t i = 0; i < p->script.size(); i++) { \
        const Step &s = p->script[i]; \
        if (s.kind == ST_YIELD) { YIELD_STMT; idx++; } \
        else if (s.kind == ST_GATE_READY || s.kind == ST_GATE_THREAD || s.kind == ST_GATE_CONSUMER) { co_await *g->fut[gate]; gate++; } \
        else if (s.kind == ST_THROW) { if (idx & 1) throw val::PlainExc{3}; throw val::TestExc(3); } /* (after an odd number of values: a type not derived from std::exception) */ \
        else co_return; \
    }
inline cocls::generator<int> body_int(const Prog *p, Gates *g) {
    BodyGuard guard; int idx = 0; size_t gate = 0;
    SCEN_GEN_BODY_LOOP(co_yield 50 + idx)
}
inline cocls::generator<val::Counted> body_counted(const Prog *p, Gates *g) {
    BodyGuard guard; int idx = 0; size_t gate = 0;
    // odd positions yield a variable of the body (an lvalue) that the body looks at again after the yield: the
    // consumer's access - whatever its style - must have left it alone
    SCEN_GEN_BODY_LOOP(if (idx & 1) { val::Counted cur(50 + idx); co_yield cur; if (cur.val() != 50 + idx) hz::fail("a variable of the generator body read %d after it was yielded with value %d: the consumer's access modified (moved from) it", cur.val(), 50 + idx); } else co_yield val::Counted(50 + idx))
}
inline cocls::generator<int, int> body_arg(const Prog *p, Gates *g) {
    BodyGuard guard; int idx = 0; size_t gate = 0;
    int arg = co_yield nullptr;
    SCEN_GEN_BODY_LOOP(arg = co_yield 100 * idx + arg)
}
template<int GK> typename GT<GK>::G body(const Prog *p, Gates *g) {
    if constexpr (GK == 0) return body_int(p, g);
    else if constexpr (GK == 1) return body_counted(p, g);
    else return body_arg(p, g);
}

struct Result { std::vector<int> got; int end = -100; bool destroyed_early = false; unsigned styles_used = 0; bool async_body = false; };

// does the body segment that produces the next element contain a gate that is still pending
// and will be resolved by (1) another thread, (2) the consumer?
struct Seg { bool thread_gate = false, consumer_gate = false; std::vector<size_t> consumer_gates; };
inline Seg next_segment(const Prog &p, size_t &script_pos, size_t &gate_idx) {
    Seg s;
    while (script_pos < p.script.size()) {
        const Step &st = p.script[script_pos++];
        if (st.kind == ST_GATE_READY) gate_idx++;
        else if (st.kind == ST_GATE_THREAD) { s.thread_gate = true; gate_idx++; }
        else if (st.kind == ST_GATE_CONSUMER) { s.consumer_gate = true; s.consumer_gates.push_back(gate_idx); gate_idx++; }
        else break;      // yield / throw / return ends the segment
    }
    return s;
}

template<int GK>
cocls::async<void> consumer(const Prog *p, Gates *gates, Result *res) {
    using G = typename GT<GK>::G;
    G g = body<GK>(p, gates);
    // (generator<T,Arg>::next needs its argument: no kept awaiter there)
    auto kept_step = [&] { if constexpr (GK == 2) return 0; else return g.next(); }();
    std::optional<typename G::iterator> it;
    size_t script_pos = 0, gate_idx = 0, call = 0;
    bool ended = false;
    int argslot[2] = {0, 0};
    while (!ended) {
        if (p->destroy_after != 255 && res->got.size() >= p->destroy_after && call > 0) { res->destroyed_early = true; break; }
        Seg seg = next_segment(*p, script_pos, gate_idx);
        uint8_t style = p->styles[call % p->styles.size()];
        // domain restrictions (DESIGN C13): blocking styles only when nothing pending has to be
        // completed by somebody who cannot run; consumer-resolved gates only through g()
        if (seg.consumer_gate) style = S_FUTURE_SELF_RESOLVE;
        else if (seg.thread_gate && (style == S_NEXT_VALUE || style == S_ITER || style == S_RANGE_FOR || style == S_FUTURE_WAIT || style == S_FUTURE_SELF_RESOLVE)) style = (style & 1) ? S_CO_NEXT : S_CO_FUTURE;
        else if (style == S_FUTURE_SELF_RESOLVE) style = S_FUTURE_WAIT;
        if (GK == 2 && (style == S_ITER || style == S_RANGE_FOR)) style = S_NEXT_VALUE;
        if (seg.thread_gate || seg.consumer_gate) res->async_body = true;
        res->styles_used |= 1u << style;
        int &arg = argslot[call & 1]; arg = 7 + (int)call;   // the argument object changes from call to call
        if (p->move_between && !it && call % 3 == 1) { G tmp(std::move(g)); g = std::move(tmp); }       // a generator is movable between accesses
        call++;
        int code = -100;          // >=0 value, -1 end, 1000+ exception
        try {
            switch (style) {
                case S_NEXT_VALUE: {
                    bool more;
                    if constexpr (GK == 2) { if (call % 3 == 0) more = (bool)g.next(int(arg)); else more = (bool)g.next(arg); }      /* (every third call hands the argument over as a temporary: it lives until the synchronous access returns) */ else more = (bool)g.next();
                    if (!more) code = -1; else code = GT<GK>::dec(g.value());
                } break;
                case S_ITER: {
                    if constexpr (GK != 2) {
                        if (!it) it.emplace(g.begin()); else ++*it;
                        if (*it == g.end()) code = -1; else code = GT<GK>::dec(**it);
                    }
                } break;
                case S_RANGE_FOR: {
                    if constexpr (GK != 2) {
                        // consumes everything that is left (only chosen when no pending gate is ahead: checked below)
                        bool pending_ahead = false;
                        for (size_t k = script_pos; k < p->script.size(); k++) if (p->script[k].kind == ST_GATE_THREAD || p->script[k].kind == ST_GATE_CONSUMER) pending_ahead = true;
                        if (pending_ahead || it) {
                            bool more = (bool)g.next();
                            if (!more) code = -1; else code = GT<GK>::dec(g.value());
                        } else {
                            for (auto &v : g) {
                                res->got.push_back(GT<GK>::dec(v));
                                if (p->destroy_after != 255 && res->got.size() >= p->destroy_after) { res->destroyed_early = true; break; }
                            }
                            if (res->destroyed_early) { ended = true; code = -50; }
                            else code = -1;
                        }
                    }
                } break;
                case S_FUTURE_WAIT: {
                    if constexpr (GK == 2) { auto f = g(arg); f.sync(); bool hv = f.has_value(); if (!hv) code = -1; else code = GT<GK>::dec(f.value()); }
                    else { auto f = g(); f.sync(); bool hv = f.has_value(); if (!hv) code = -1; else code = GT<GK>::dec(f.value()); }
                } break;
                case S_CO_NEXT: {
                    bool more;
                    if constexpr (GK == 2) { more = co_await g.next(arg); }
                    else if (p->keep_awaiter && !p->move_between) { more = co_await kept_step; }
                    else { more = co_await g.next(); }
                    if (!more) code = -1; else code = GT<GK>::dec(g.value());
                } break;
                case S_CO_FUTURE: {
                    if constexpr (GK == 2) { auto f = g(arg); bool hv = co_await f.has_value(); if (!hv) code = -1; else code = GT<GK>::dec(f.value()); }
                    else { auto f = g(); bool hv = co_await f.has_value(); if (!hv) code = -1; else code = GT<GK>::dec(f.value()); }
                } break;
                default: {   // S_FUTURE_SELF_RESOLVE: obtain the future, complete the awaited operation ourselves, read
                    if constexpr (GK == 2) {
                        auto f = g(arg);
                        for (size_t gi : seg.consumer_gates) { hz::upoint(); gates->prom[gi](); }
                        bool hv = co_await f.has_value();   // (a gate of the other thread may still be pending)
                        if (!hv) code = -1; else code = GT<GK>::dec(f.value());
                    } else {
                        auto f = g();
                        for (size_t gi : seg.consumer_gates) { hz::upoint(); gates->prom[gi](); }
                        bool hv = co_await f.has_value();
                        if (!hv) code = -1; else code = GT<GK>::dec(f.value());
                    }
                } break;
            }
        }
        catch (const val::TestExc &e) { code = 1000 + e.id; }
        catch (const val::PlainExc &e) { code = 1000 + e.id; }
        catch (const cocls::no_more_values_exception &) { code = -7; }
        if (code == -50) break;
        // done() / operator bool agree with what the access just reported: a delivered value means the body is parked at a yield,
        // a plain end indication means it has returned (after an exception the state is not specified: not looked at)
        if (code >= 0 && code < 1000) HZ_CHECK(!g.done() && (bool)g, "done() is %d / operator bool is %d right after value %d was delivered (the body has not ended)", (int)g.done(), (int)(bool)g, code);
        if (code == -1) HZ_CHECK(g.done() && !(bool)g, "done() is %d / operator bool is %d after the end-of-sequence indication", (int)g.done(), (int)(bool)g);
        if (code >= 0 && code < 1000) res->got.push_back(code);
        else { res->end = code; ended = true; }
    }
    // g is destroyed here (possibly parked at a yield)
}

// ordinary blocking consumer on the main thread: synchronous styles, also over a body that
// waits for operations completed by the other thread (blocking is the documented behaviour)
template<int GK>
void consumer_plain(const Prog *p, Gates *gates, Result *res) {
    using G = typename GT<GK>::G;
    G g = body<GK>(p, gates);
    std::optional<typename G::iterator> it;
    size_t script_pos = 0, gate_idx = 0, call = 0;
    bool ended = false;
    int argslot[2] = {0, 0};
    while (!ended) {
        if (p->destroy_after != 255 && res->got.size() >= p->destroy_after && call > 0) { res->destroyed_early = true; break; }
        Seg seg = next_segment(*p, script_pos, gate_idx);
        uint8_t style = p->styles[call % p->styles.size()];
        if (GK == 2 && (style == S_ITER || style == S_RANGE_FOR)) style = S_NEXT_VALUE;
        if (seg.thread_gate) res->async_body = true;
        res->styles_used |= 1u << style;
        int &arg = argslot[call & 1]; arg = 7 + (int)call;   // the argument object changes from call to call
        call++;
        int code = -100;
        try {
            if (style == S_NEXT_VALUE || (style == S_RANGE_FOR && it)) {
                bool more;
                if constexpr (GK == 2) { if (call % 3 == 0) more = (bool)g.next(int(arg)); else more = (bool)g.next(arg); }      /* (every third call hands the argument over as a temporary: it lives until the synchronous access returns) */ else more = (bool)g.next();
                if (!more) code = -1; else code = GT<GK>::dec(g.value());
            } else if (style == S_ITER) {
                if constexpr (GK != 2) {
                    if (!it) it.emplace(g.begin()); else ++*it;
                    if (*it == g.end()) code = -1; else code = GT<GK>::dec(**it);
                }
            } else if (style == S_RANGE_FOR) {
                if constexpr (GK != 2) {
                    for (size_t k = script_pos; k < p->script.size(); k++) if (p->script[k].kind == ST_GATE_THREAD) res->async_body = true;
                    for (auto &v : g) {
                        res->got.push_back(GT<GK>::dec(v));
                        if (p->destroy_after != 255 && res->got.size() >= p->destroy_after) { res->destroyed_early = true; break; }
                    }
                    if (res->destroyed_early) return;
                    code = -1;
                }
            } else {
                if constexpr (GK == 2) { auto f = g(arg); bool hv = f.has_value(); if (!hv) code = -1; else code = GT<GK>::dec(f.wait()); }
                else { auto f = g(); bool hv = f.has_value(); if (!hv) code = -1; else code = GT<GK>::dec(f.wait()); }
            }
        }
        catch (const val::TestExc &e) { code = 1000 + e.id; }
        catch (const val::PlainExc &e) { code = 1000 + e.id; }
        catch (const cocls::no_more_values_exception &) { code = -7; }
        if (code >= 0 && code < 1000) HZ_CHECK(!g.done() && (bool)g, "done() is %d / operator bool is %d right after value %d was delivered (the body has not ended)", (int)g.done(), (int)(bool)g, code);
        if (code == -1) HZ_CHECK(g.done() && !(bool)g, "done() is %d / operator bool is %d after the end-of-sequence indication", (int)g.done(), (int)(bool)g);
        if (code >= 0 && code < 1000) res->got.push_back(code);
        else { res->end = code; ended = true; }
    }
}

template<int GK>
void run_t(const Prog &p) {
    Result res;
    Expect ex = expectation<GK>(p);
    {
        Gates gates;
        for (auto &s : p.script) {
            if (s.kind == ST_GATE_READY || s.kind == ST_GATE_THREAD || s.kind == ST_GATE_CONSUMER) {
                gates.fut.emplace_back(new cocls::future<void>());
                gates.prom.push_back(gates.fut.back()->get_promise());
                gates.kind.push_back(s.kind); gates.yields.push_back(s.yields);
            }
        }
        for (size_t i = 0; i < gates.prom.size(); i++) if (gates.kind[i] == ST_GATE_READY) gates.prom[i]();
        bool need_thread = false;
        for (auto k : gates.kind) if (k == ST_GATE_THREAD) need_thread = true;
        std::thread resolver;
        if (need_thread) resolver = std::thread([&gates] {
            for (size_t i = 0; i < gates.prom.size(); i++) if (gates.kind[i] == ST_GATE_THREAD) { hz::upoints(gates.yields[i]); gates.prom[i](); }
        });
        if (p.plain_consumer) consumer_plain<GK>(&p, &gates, &res);
        else {
            cocls::future<void> done = consumer<GK>(&p, &gates, &res).start();
            done.wait();
        }
        if (need_thread) resolver.join();
        // gates the consumer never reached (early destruction / end) are dropped here
    }
    // ---- oracle ----
    size_t n = res.got.size();
    HZ_CHECK(n <= ex.values.size(), "consumer received %zu values, the body yields only %zu", n, ex.values.size());
    for (size_t i = 0; i < n; i++)
        HZ_CHECK(res.got[i] == ex.values[i], "value #%zu seen by the consumer is %d, the body yielded %d (skipped, repeated or wrong argument)", i, res.got[i], ex.values[i]);
    if (!res.destroyed_early) {
        HZ_CHECK(n == ex.values.size(), "sequence ended after %zu values, the body yields %zu", n, ex.values.size());
        if (ex.end == 0) HZ_CHECK(res.end == -1, "end of sequence reported as %d (expected a plain end indication)", res.end);
        else HZ_CHECK(res.end == ex.end, "body threw exception %d after %zu values but the consumer saw %d at that position", ex.end, n, res.end);
    }
    HZ_CHECK(hz::slot_get(20) == 1 || (hz::slot_get(20) == 0), "body started %ld times", hz::slot_get(20));
    HZ_CHECK(hz::slot_get(21) == 0, "body locals still alive after the generator was destroyed (%ld)", hz::slot_get(21));
    HZ_CHECK(hz::slot_get(22) == hz::slot_get(20), "body locals destroyed %ld times, constructed %ld times", hz::slot_get(22), hz::slot_get(20));
    if constexpr (GK == 1) val::check_counted_balance("end of case");
    unsigned nstyles = (unsigned)__builtin_popcount(res.styles_used);
    hz::set_class((res.async_body ? 1 : 0) | (res.destroyed_early ? 2 : 0) | (ex.end ? 4 : 0));
    hz::set_nontrivial(nstyles >= 2 || res.async_body || ex.end || GK == 2 || res.destroyed_early);
    hz::count(0, n); hz::count(1, nstyles);
}

inline void run(hz::Reader &r) {
    Prog p = decode(r);
    if (p.gkind == 0) run_t<0>(p); else if (p.gkind == 1) run_t<1>(p); else run_t<2>(p);
}

static const char *const class_names[] = {"sync-body", "async-body", "sync+early-destroy", "async+early-destroy", "sync+throw", "async+throw", "sync+throw+destroy", "async+throw+destroy"};
static const char *const counter_names[] = {"values_consumed", "styles_mixed"};

} // namespace scen_gen
