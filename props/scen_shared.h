// scen_shared.h - shared_future scenario: C17, reused by C03
#pragma once
#include "common.h"
#include "values.h"

namespace scen_shared {

enum { CK_PROMISE_KEPT, CK_PROMISE_RESOLVED_INSIDE, CK_FROM_FUTURE_PENDING, CK_FROM_FUTURE_READY, CK_DEFAULT_GET_PROMISE, CK_COUNT,
       // chosen by a trailing program byte (older replay files keep their meaning)
       CK_FACTORY_VALUE = CK_COUNT,   // shared_future<T>::set_value(v)
       CK_FACTORY_EXCEPTION,          // shared_future<T>::set_exception(e)
       CK_SHIFT_PENDING,              // default-constructed, init_if_needed(), sf << function returning a pending future
       CK_ALL };
enum { WA_WAIT, WA_COAWAIT, WA_DROP_PENDING, WA_POLL, WA_COPY_THEN_WAIT, WA_COUNT };
enum { RA_VALUE, RA_EXC, RA_DROP };
struct Worker { uint8_t action, yields; };
struct Prog { uint8_t vt; uint8_t ck; uint8_t ra; uint8_t res_yields; std::vector<Worker> w; uint8_t main_drop; uint8_t early_copy = 0; };  // main_drop: 0 keeps handle to the end, 1 drops before joining

inline Prog decode(hz::Reader &r) {
    Prog p; p.vt = (uint8_t)r.mod(2); p.ck = (uint8_t)r.mod(CK_COUNT); p.ra = (uint8_t)r.mod(3); p.res_yields = (uint8_t)r.mod(4);
    unsigned n = 1 + r.mod(3);
    for (unsigned i = 0; i < n; i++) { Worker w; w.action = (uint8_t)r.mod(WA_COUNT); w.yields = (uint8_t)r.mod(3); p.w.push_back(w); }
    p.main_drop = (uint8_t)r.mod(2);
    p.early_copy = (uint8_t)r.mod(2);        // default-constructed kind: init_if_needed(), copy the handle, THEN get_promise()
    unsigned e = r.mod(6); if (e >= 3) p.ck = (uint8_t)(CK_FACTORY_VALUE + (e - 3));
    return p;
}
inline std::string describe(const Prog &p) {
    static const char *ck[] = {"from promise-function (promise kept)", "from promise-function (resolved inside)", "from future-returning function (pending)", "from future-returning function (ready)", "default-constructed + get_promise()",
                               "set_value() factory", "set_exception() factory", "default-constructed, init_if_needed(), << function returning a pending future"};
    static const char *wa[] = {"wait()", "co_await own copy", "drop handle while pending", "poll ready() then value()", "copy, drop original, self-assign the copy, wait()"};
    static const char *ra[] = {"value", "exception", "drop"};
    hz::Desc d; d << "shared_future<" << (p.vt ? "Counted" : "int") << "> " << ck[p.ck] << "; resolver thread: yield*" << (unsigned)p.res_yields << ", " << ra[p.ra] << "; workers:";
    for (auto &w : p.w) d << " [yield*" << (unsigned)w.yields << ", " << wa[w.action] << "]";
    if (p.ck == CK_DEFAULT_GET_PROMISE && p.early_copy) d << "; the workers' copies are taken after init_if_needed() but BEFORE get_promise()";
    d << (p.main_drop ? "; owner drops its handle before joining" : "; owner keeps its handle");
    return d.s;
}

template<int VT> struct ST;
template<> struct ST<0> { using T = int; static int mk(int v) { return v; } static int dec(const int &v) { return v; } };
template<> struct ST<1> { using T = val::Counted; static val::Counted mk(int v) { return val::Counted(v); } static int dec(const val::Counted &v) { return v.val(); } };

template<int VT>
struct Ctx {
    using T = typename ST<VT>::T;
    using SF = cocls::shared_future<T>;
    std::vector<int> code;         // per worker observation; -100 none (dropped)
    std::vector<int> resumes;
    cocls::promise<T> kept;
    std::atomic<int> available{0};     // the promise has been handed out (possibly from INSIDE the shared_future constructor)
    void keep(cocls::promise<T> &&pr) { kept = std::move(pr); available.store(1, std::memory_order_release); }

    template<class F> static int guarded(F &&fn) {
        try { return fn(); }
        catch (const val::TestExc &e) { return 1000 + e.id; }
        catch (const cocls::await_canceled_exception &) { return -1; }
        catch (const cocls::value_not_ready_exception &) { return -2; }
        catch (...) { return -4; }
    }
    cocls::async<void> awaiter(size_t i, SF sf) {        // the awaiter keeps its own copy
        int c;
        try { decltype(auto) v = co_await sf; c = ST<VT>::dec(v); }
        catch (const val::TestExc &e) { c = 1000 + e.id; }
        catch (const cocls::await_canceled_exception &) { c = -1; }
        resumes[i]++; code[i] = c;
    }
    void worker(size_t i, const Prog &p, SF sf) {
        hz::upoints(p.w[i].yields);
        switch (p.w[i].action) {
            case WA_WAIT: code[i] = guarded([&] { return ST<VT>::dec(sf.wait()); }); resumes[i]++; break;
            case WA_COAWAIT: { cocls::future<void> done = awaiter(i, sf).start(); sf = SF(); done.wait(); } break;
            case WA_DROP_PENDING: sf = SF(); break;
            case WA_POLL: while (!sf.ready()) vrt::yield(); code[i] = guarded([&] { return ST<VT>::dec(sf.value()); }); resumes[i]++; break;
            default: {
                SF copy(sf); sf = SF(); hz::upoint();
                { SF &alias = copy; copy = alias; }        // assignment of a handle to itself through an alias changes nothing
                code[i] = guarded([&] { return ST<VT>::dec(copy.wait()); }); resumes[i]++;
            } break;
        }
    }
};

template<int VT>
void run_t(const Prog &p) {
    using C = Ctx<VT>; using T = typename C::T; using SF = typename C::SF;
    bool pending_kind = p.ck == CK_PROMISE_KEPT || p.ck == CK_FROM_FUTURE_PENDING || p.ck == CK_DEFAULT_GET_PROMISE || p.ck == CK_SHIFT_PENDING;
    int expect = p.ra == RA_VALUE ? 42 : p.ra == RA_EXC ? 1005 : -1;
    if (p.ck == CK_PROMISE_RESOLVED_INSIDE || p.ck == CK_FROM_FUTURE_READY || p.ck == CK_FACTORY_VALUE) expect = 42;
    if (p.ck == CK_FACTORY_EXCEPTION) expect = 1007;
    bool all_dropped_while_pending = false;
    {
        C c; c.code.assign(p.w.size(), -100); c.resumes.assign(p.w.size(), 0);
        // the resolver thread exists BEFORE the shared_future is constructed and acts as soon as the promise is
        // handed out - i.e. possibly while the constructor is still running (tracer registration window)
        std::thread resolver([&c, &p, pending_kind] {
            if (!pending_kind) return;
            while (!c.available.load(std::memory_order_acquire)) vrt::yield();
            hz::upoints(p.res_yields);
            if (p.ra == RA_VALUE) c.kept(ST<VT>::mk(42));
            else if (p.ra == RA_EXC) c.kept(std::make_exception_ptr(val::TestExc(5)));
            else c.kept(cocls::drop);
        });
        std::optional<SF> sf, early;
        switch (p.ck) {
            case CK_PROMISE_KEPT: sf.emplace([&](cocls::promise<T> pr) { c.keep(std::move(pr)); }); break;
            case CK_PROMISE_RESOLVED_INSIDE: sf.emplace([&](cocls::promise<T> pr) { pr(ST<VT>::mk(42)); }); break;
            case CK_FROM_FUTURE_PENDING: sf.emplace([&]() -> cocls::future<T> { return cocls::future<T>([&](cocls::promise<T> pr) { c.keep(std::move(pr)); }); }); break;
            case CK_FROM_FUTURE_READY: sf.emplace([&]() -> cocls::future<T> { return cocls::future<T>::set_value(ST<VT>::mk(42)); }); break;
            case CK_FACTORY_VALUE: sf.emplace(SF::set_value(ST<VT>::mk(42))); break;
            case CK_FACTORY_EXCEPTION: sf.emplace(SF::set_exception(std::make_exception_ptr(val::TestExc(7)))); break;
            case CK_SHIFT_PENDING:
                sf.emplace(); sf->init_if_needed();
                *sf << [&]() -> cocls::future<T> { return cocls::future<T>([&](cocls::promise<T> pr) { c.keep(std::move(pr)); }); };
                break;
            default:
                sf.emplace();
                if (p.early_copy) { sf->init_if_needed(); early.emplace(*sf); }      // copies of an initialised, not yet promised handle share its state
                c.keep(sf->get_promise());
                break;
        }
        std::vector<std::thread> th;
        for (size_t i = 0; i < p.w.size(); i++) th.emplace_back([&c, &p, i, copy = early ? *early : *sf]() mutable { c.worker(i, p, std::move(copy)); });
        early.reset();
        if (p.main_drop) sf.reset();
        bool only_droppers = true; for (auto &w : p.w) if (w.action != WA_DROP_PENDING) only_droppers = false;
        all_dropped_while_pending = p.main_drop && only_droppers && pending_kind;
        resolver.join();
        for (auto &t : th) t.join();
        // ---- oracle: all awaiters / copies observe the same single result, each resumed once ----
        for (size_t i = 0; i < p.w.size(); i++) {
            if (p.w[i].action == WA_DROP_PENDING) continue;
            HZ_CHECK(c.resumes[i] == 1, "worker %zu was released %d times", i, c.resumes[i]);
            HZ_CHECK(c.code[i] == expect, "worker %zu observed %d through its copy, the shared result is %d", i, c.code[i], expect);
        }
        if (sf) {
            HZ_CHECK(sf->ready(), "owner's handle is not ready after the resolution");
            int o = C::guarded([&] { return ST<VT>::dec(sf->value()); });
            HZ_CHECK(o == expect, "owner's handle shows %d, the shared result is %d", o, expect);
            if constexpr (VT == 1) HZ_CHECK(hz::slot_get(val::SLOT_LIVE) == (expect == 42 ? 1 : 0), "%ld stored values alive while a handle still exists", hz::slot_get(val::SLOT_LIVE));
        }
    }
    // every handle is gone and the state was resolved: it must have been freed exactly once
    if constexpr (VT == 1) {
        HZ_CHECK(hz::slot_get(val::SLOT_LIVE) == 0, "%ld stored values still alive after every handle was dropped and the state resolved (state leaked)", hz::slot_get(val::SLOT_LIVE));
        val::check_counted_balance("end of case");
    }
    hz::set_class(p.ck);
    hz::set_nontrivial(vrt::stats().switches > 0 && (pending_kind || p.w.size() >= 2));
    hz::count(0, all_dropped_while_pending ? 1 : 0);
}

inline void run(hz::Reader &r) { Prog p = decode(r); if (p.vt) run_t<1>(p); else run_t<0>(p); }
static const char *const class_names[] = {"promise-kept", "resolved-inside", "from-pending-future", "from-ready-future", "default+get_promise", "set_value-factory", "set_exception-factory", "operator<<-pending"};
static const char *const counter_names[] = {"cases_all_handles_dropped_while_pending"};

} // namespace scen_shared
