// C07 - coroutine mutex: mutual exclusion and exactly-once grant
#include "scen_mutex.h"

namespace hz {
static const Info I = {
    "C07", 1, 69, 60000, true, true,
    "rapidcheck generates (program bytes, schedule bytes, fault bytes); the program decodes to 2..4 contenders "
    "(coroutine or thread flavour), 1..3 rounds each of {co_await lock, lock().wait(), manual subscribe, try_lock} x "
    "{release discarded, ownership destroyed, co_await release / kept suspend point, release on a helper thread, parallel_resume(release()) - the next owner continues in a new detached thread} with harness yield points; "
    "the schedule drives the virtual runtime (sparse 1..4 preemptions, dense, or zero) plus a systematic sweep of every 1-preemption schedule "
    "of generated programs. Non-trivial = at least one lock request had to wait AND at least one context switch happened at a scheduling point "
    "inside a library operation; distinct = distinct 64-bit hash of (decoded program, executed switch trace).",
    scen_mutex::class_names, 6, scen_mutex::counter_names, 6};
const Info &info() { return I; }
void run_case(Reader &r) { scen_mutex::run(r, scen_mutex::O_EXCLUSION); }
std::string describe(Reader &r) { return scen_mutex::describe(scen_mutex::decode(r)); }
}
