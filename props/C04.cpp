// C04 - an async coroutine runs once, delivers to its bound party, frees once
#include "common.h"
#include "values.h"

namespace c04 {

enum Mode : uint8_t { M_DETACH_DISCARD, M_DETACH_AWAIT, M_START_FUTURE, M_START_PROMISE_LIVE, M_START_PROMISE_CLAIMED, M_COAWAIT, M_JOIN, M_FUTURE_CTOR,
                      M_RETURN_FUTURE_FN, M_POOL_RUN, M_DESTROY_UNSTARTED, M_START_PROMISE_RACED, M_START_PROMISE_SESSION, M_COUNT };
enum Comp : uint8_t { C_VALUE, C_THROW, C_SUSPEND_SAME, C_SUSPEND_OTHER, C_RESULT_CTOR_THROWS, C_COUNT };   // last: co_return of an expression from which the result cannot be constructed (its constructor throws)
struct Node { uint8_t mode, comp; };
struct Prog { uint8_t vt; std::vector<Node> n; uint8_t yields; uint8_t watcher = 0; uint8_t unwinding = 0; };   // unwinding: the root is launched by a destructor during stack unwinding
//   // watcher (root started with start()): a second thread waits on the SAME future while the coroutine completes

inline Prog decode(hz::Reader &r) {
    Prog p; p.vt = (uint8_t)r.mod(4);
    unsigned d = 1 + r.mod(5);
    for (unsigned i = 0; i < d; i++) { Node x; x.mode = (uint8_t)r.mod(M_COUNT); x.comp = (uint8_t)r.mod(C_COUNT); p.n.push_back(x); }
    p.yields = (uint8_t)r.mod(3);
    p.watcher = (uint8_t)(r.mod(2) == 1);       // trailing byte
    p.unwinding = (uint8_t)(r.mod(3) == 1);     // trailing byte
    // start(promise) racing with another claimant of the same promise: only for the root (a second thread is involved)
    for (size_t i = 1; i < p.n.size(); i++) if (p.n[i].mode == M_START_PROMISE_RACED) p.n[i].mode = M_START_PROMISE_LIVE;
    // the root is launched from ordinary code: modes that need a coroutine context are mapped
    if (p.n[0].mode == M_DETACH_AWAIT) p.n[0].mode = M_DETACH_DISCARD;
    if (p.n[0].mode == M_COAWAIT) p.n[0].mode = M_JOIN;
    // a blocking wait inside a coroutine is asserted against - but join() of a child that completes without suspending
    // never waits (start() inside a coroutine runs the child at once), so it is kept for a leaf that returns or throws
    for (size_t i = 1; i < p.n.size(); i++) if (p.n[i].mode == M_JOIN && !(i + 1 == p.n.size() && (p.n[i].comp == C_VALUE || p.n[i].comp == C_THROW || p.n[i].comp == C_RESULT_CTOR_THROWS))) p.n[i].mode = M_COAWAIT;
    // a blocking join of the root: nothing below may wait for the joining thread itself
    bool root_blocks = p.n[0].mode == M_JOIN;
    if (root_blocks) for (auto &x : p.n) if (x.comp == C_SUSPEND_SAME) x.comp = C_SUSPEND_OTHER;
    // below a node that never runs nothing is created
    for (size_t i = 0; i < p.n.size(); i++) if (p.n[i].mode == M_DESTROY_UNSTARTED || p.n[i].mode == M_START_PROMISE_CLAIMED) { p.n.resize(i + 1); break; }
    return p;
}
static const char *mn[] = {"detach(discarded)", "co_await detach()", "start()->future", "start(live promise)", "start(claimed promise)", "co_await coro", "join()", "future<T>(coro)",
                           "future-returning coroutine function", "thread_pool::run", "destroyed unstarted", "start(promise) racing with a drop of the same promise on another thread",
                           "start(promise) of a future inside an object that only the coroutine's own argument keeps alive (party = callback awaiter on it)"};
static const char *cn[] = {"returns value", "throws", "suspends on a future resolved by the launching thread", "suspends on a future resolved by another thread", "co_returns an expression whose conversion to the result type throws"};
inline std::string describe(const Prog &p) {
    static const char *vt[] = {"int", "void", "Counted", "int&"};
    hz::Desc d; d << "async<" << vt[p.vt] << "> chain of depth " << (unsigned)p.n.size() << ":";
    for (size_t i = 0; i < p.n.size(); i++) d << " #" << (unsigned)i << "[" << mn[p.n[i].mode] << ", " << cn[p.n[i].comp] << "]";
    if (p.unwinding) d << "; the root is launched by the destructor of a local during stack unwinding";
    if (p.watcher && p.n[0].mode == M_START_FUTURE) d << "; a second thread waits on the root's future too";
    return d.s;
}

template<int VT> struct AT;
template<> struct AT<0> { using T = int; static int mk(int v) { return v; } };
template<> struct AT<1> { using T = void; };
template<> struct AT<2> { using T = val::Counted; static val::Counted mk(int v) { return val::Counted(v); } };
template<> struct AT<3> { using T = int &; };      // reference result: the coroutine returns a reference to an int that outlives it

struct Guard {     // argument / local guard: live count must return to 0, never go negative
    int slot;
    explicit Guard(int s) : slot(s) { hz::slot_add(slot, 1); hz::slot_add(slot + 1, 1); }
    Guard(const Guard &o) : slot(o.slot) { hz::slot_add(slot, 1); }
    Guard(Guard &&o) noexcept : slot(o.slot) { hz::slot_add(slot, 1); }
    ~Guard() { if (hz::slot_add(slot, -1) < 0) hz::fail("a coroutine argument/local was destroyed more often than it was constructed"); }
};
constexpr int SLOT_ARG = 14, SLOT_LOCAL = 16, SLOT_SESSION = 18;

struct Ctx {
    const Prog *p = nullptr;
    cocls::thread_pool *pool = nullptr;
    int body_runs[8] = {}; int body_done[8] = {};
    int ref_result[8] = {100, 101, 102, 103, 104, 105, 106, 107};     // referents of async<int&> results
    int root_started = 1;             // M_START_PROMISE_RACED: did start() win the claim?
    int received[8];                  // what the launching party received from node k: -100 nothing, >=0 value, 1000+id exception, -1 canceled
    std::vector<std::unique_ptr<cocls::future<void>>> gate; std::vector<cocls::promise<void>> gate_p;
    Ctx() { for (int &x : received) x = -100; }
};

template<int VT, class F> int observe_fut(F &f) {
    try { if constexpr (VT == 1) { f.value(); return 0; } else if constexpr (VT == 0 || VT == 3) return f.value(); else return f.value().val(); }
    catch (const val::TestExc &e) { return 1000 + e.id; }
    catch (const val::PlainExc &e) { return 1000 + e.id; }
    catch (const cocls::await_canceled_exception &) { return -1; }
    catch (const cocls::value_not_ready_exception &) { return -2; }
}

template<class R, int VT> R node(Ctx *c, int k, Guard arg, std::shared_ptr<void> keep = {});

// the bound party lives in an object whose last owner is an argument of the coroutine itself (the usual
// shared_from_this pattern): the outcome has to be delivered BEFORE the frame - and with it the party - is destroyed
template<int VT>
struct Session {
    using T = typename AT<VT>::T;
    cocls::future<T> f;
    struct Cb : cocls::awaiter {
        Session *s = nullptr; Ctx *c = nullptr; int k = 0;
        Cb() { set_resume_fn(&fire); }
        static cocls::suspend_point<void> fire(cocls::awaiter *me, void *) noexcept { auto *x = static_cast<Cb *>(me); x->c->received[x->k] = observe_fut<VT>(x->s->f); return {}; }
    } cb;
    Session(Ctx *c, int k) { cb.s = this; cb.c = c; cb.k = k; hz::slot_add(SLOT_SESSION, 1); }
    ~Session() { hz::slot_add(SLOT_SESSION, -1); }
};
template<int VT>
void launch_session(Ctx *c, int k) {
    using T = typename AT<VT>::T;
    auto s = std::make_shared<Session<VT>>(c, k);
    cocls::promise<T> pr = s->f.get_promise();
    bool reg = s->f.operator co_await().subscribe(&s->cb);
    HZ_CHECK(reg, "harness: callback awaiter not registered on a pending future");
    auto a = node<cocls::async<T>, VT>(c, k, Guard(SLOT_ARG), s);
    s.reset();                                   // from here on the coroutine's argument is the only owner
    bool ok = a.start(pr);
    HZ_CHECK(ok, "start(live promise) reported failure");
}

// launch child k from inside a running coroutine; records what the launcher received
template<int VT>
cocls::async<void> launch_from_coro(Ctx *c, int k) {
    using T = typename AT<VT>::T;
    uint8_t mode = c->p->n[(size_t)k].mode;
    int got = -100;
    try {
        switch (mode) {
            case M_DETACH_DISCARD: node<cocls::async<T>, VT>(c, k, Guard(SLOT_ARG)).detach(); break;
            case M_DETACH_AWAIT: { auto a = node<cocls::async<T>, VT>(c, k, Guard(SLOT_ARG)); co_await a.detach(); } break;
            case M_START_FUTURE: { cocls::future<T> f = node<cocls::async<T>, VT>(c, k, Guard(SLOT_ARG)).start(); co_await f.has_value(); got = observe_fut<VT>(f); } break;
            case M_START_PROMISE_LIVE: { cocls::future<T> f; auto pr = f.get_promise(); auto a = node<cocls::async<T>, VT>(c, k, Guard(SLOT_ARG)); bool ok = a.start(pr);
                                         HZ_CHECK(ok, "start(live promise) reported failure"); co_await f.has_value(); got = observe_fut<VT>(f); } break;
            case M_START_PROMISE_CLAIMED: { cocls::future<T> f; auto pr = f.get_promise(); cocls::promise<T> thief(std::move(pr)); auto a = node<cocls::async<T>, VT>(c, k, Guard(SLOT_ARG));
                                            bool ok = a.start(pr); HZ_CHECK(!ok, "start(already claimed promise) reported success"); thief(cocls::drop); } break;
            case M_JOIN: {          // only generated for a leaf that completes synchronously
                auto a = node<cocls::async<T>, VT>(c, k, Guard(SLOT_ARG));
                if constexpr (VT == 1) { a.join(); got = 0; } else if constexpr (VT == 0 || VT == 3) got = a.join(); else { val::Counted v = a.join(); got = v.val(); }
            } break;
            case M_COAWAIT: {
                auto a = node<cocls::async<T>, VT>(c, k, Guard(SLOT_ARG));
                if constexpr (VT == 1) { co_await a; got = 0; } else if constexpr (VT == 0 || VT == 3) { int v = co_await a; got = v; } else { val::Counted copy = co_await a; got = copy.val(); }
            } break;
            case M_FUTURE_CTOR: {
                auto a = node<cocls::async<T>, VT>(c, k, Guard(SLOT_ARG));
                // (documented: a future<T> - by value - can be constructed from a producer of T&)
                if constexpr (VT == 3) { cocls::future<int> f(a); co_await f.has_value(); got = observe_fut<VT>(f); }
                else { cocls::future<T> f(a); co_await f.has_value(); got = observe_fut<VT>(f); }
            } break;
            case M_RETURN_FUTURE_FN: { cocls::future<T> f = node<cocls::future<T>, VT>(c, k, Guard(SLOT_ARG)); co_await f.has_value(); got = observe_fut<VT>(f); } break;
            case M_POOL_RUN: { cocls::future<T> f = c->pool->run(node<cocls::async<T>, VT>(c, k, Guard(SLOT_ARG))); co_await f.has_value(); got = observe_fut<VT>(f); } break;
            case M_START_PROMISE_SESSION: launch_session<VT>(c, k); got = c->received[k]; break;      // (the callback may also fire later)
            default: { auto a = node<cocls::async<T>, VT>(c, k, Guard(SLOT_ARG)); } break;
        }
    }
    catch (const val::TestExc &e) { got = 1000 + e.id; }
    catch (const val::PlainExc &e) { got = 1000 + e.id; }
    catch (const cocls::await_canceled_exception &) { got = -1; }
    if (mode != M_START_PROMISE_SESSION) c->received[k] = got;
}

template<class R, int VT>
R node(Ctx *c, int k, Guard arg, std::shared_ptr<void> keep) {
    Guard local(SLOT_LOCAL);
    c->body_runs[k]++;
    if ((size_t)k + 1 < c->p->n.size()) {
        auto l = launch_from_coro<VT>(c, k + 1);
        co_await l;
    }
    uint8_t comp = c->p->n[(size_t)k].comp;
    if (comp == C_SUSPEND_SAME || comp == C_SUSPEND_OTHER) { co_await *c->gate[(size_t)k]; }
    c->body_done[k]++;
    if (comp == C_THROW) { if (k & 1) throw val::PlainExc{k}; throw val::TestExc(k); }        // (odd positions: a type not derived from std::exception)
    if (comp == C_RESULT_CTOR_THROWS) {
        // the exception leaves the construction of the RESULT inside the bound party: it is delivered like one thrown by the body
        if constexpr (VT == 2) co_return val::Poison{k}; else throw val::TestExc(k);
    }
    if constexpr (VT == 1) co_return; else if constexpr (VT == 3) co_return c->ref_result[k]; else co_return AT<VT>::mk(100 + k);
}

template<int VT>
void run_t(const Prog &p) {
    using T = typename AT<VT>::T;
    {
        Ctx c; c.p = &p;
        cocls::thread_pool pool(1); c.pool = &pool;
        bool other = false;
        for (size_t k = 0; k < p.n.size(); k++) {
            c.gate.emplace_back(new cocls::future<void>()); c.gate_p.push_back(c.gate.back()->get_promise());
            if (p.n[k].comp == C_VALUE || p.n[k].comp == C_THROW || p.n[k].comp == C_RESULT_CTOR_THROWS) c.gate_p.back()();          // unused gate: resolved up front
            if (p.n[k].comp == C_SUSPEND_OTHER) other = true;
        }
        std::thread resolver;
        if (other) resolver = std::thread([&c, &p] { for (size_t k = p.n.size(); k-- > 0;) if (p.n[k].comp == C_SUSPEND_OTHER) { hz::upoints(p.yields); c.gate_p[k](); } });
        auto open_same_gates = [&] { for (size_t k = p.n.size(); k-- > 0;) if (p.n[k].comp == C_SUSPEND_SAME) c.gate_p[k](); };
        // ---- root launched from ordinary code ----
        int got = -100;
        auto launch = [&] {
        try {
            switch (p.n[0].mode) {
                case M_DETACH_DISCARD: node<cocls::async<T>, VT>(&c, 0, Guard(SLOT_ARG)).detach(); open_same_gates(); break;
                case M_START_FUTURE: {
                    cocls::future<T> f = node<cocls::async<T>, VT>(&c, 0, Guard(SLOT_ARG)).start();
                    // optionally the party consists of two threads waiting on the bound future: the outcome reaches both
                    std::thread watcher; int got2 = -100;
                    if (p.watcher) watcher = std::thread([&f, &got2, &p] { hz::upoints(p.yields); f.sync(); got2 = observe_fut<VT>(f); });
                    open_same_gates(); f.sync(); got = observe_fut<VT>(f);
                    if (watcher.joinable()) { watcher.join(); HZ_CHECK(got2 == got, "the second thread waiting on the future the coroutine was started to observed %d, the first one %d", got2, got); }
                } break;
                case M_START_PROMISE_LIVE: { cocls::future<T> f; auto pr = f.get_promise(); auto a = node<cocls::async<T>, VT>(&c, 0, Guard(SLOT_ARG)); bool ok = a.start(pr);
                                             HZ_CHECK(ok, "start(live promise) reported failure"); open_same_gates(); f.sync(); got = observe_fut<VT>(f); } break;
                case M_START_PROMISE_CLAIMED: { cocls::future<T> f; auto pr = f.get_promise(); cocls::promise<T> thief(std::move(pr)); auto a = node<cocls::async<T>, VT>(&c, 0, Guard(SLOT_ARG));
                                                bool ok = a.start(pr); HZ_CHECK(!ok, "start(already claimed promise) reported success"); thief(cocls::drop); } break;
                case M_START_PROMISE_RACED: {
                    cocls::future<T> f; auto pr = f.get_promise(); auto a = node<cocls::async<T>, VT>(&c, 0, Guard(SLOT_ARG));
                    int racer_won = -1;
                    std::thread racer([&pr, &racer_won, &p] { hz::upoints(p.yields); racer_won = (bool)pr(cocls::drop) ? 1 : 0; });
                    bool ok = a.start(pr);
                    racer.join();
                    HZ_CHECK((ok ? 1 : 0) + racer_won == 1, "start(promise) reported %d and the concurrent drop of the same promise reported %d: exactly one party may claim it", (int)ok, racer_won);
                    c.root_started = ok ? 1 : 0;
                    open_same_gates(); f.sync(); got = observe_fut<VT>(f);
                } break;
                case M_JOIN: {
                    auto a = node<cocls::async<T>, VT>(&c, 0, Guard(SLOT_ARG));
                    if constexpr (VT == 1) { a.join(); got = 0; } else if constexpr (VT == 0 || VT == 3) got = a.join(); else { val::Counted v = a.join(); got = v.val(); }
                } break;
                case M_FUTURE_CTOR: {
                    auto a = node<cocls::async<T>, VT>(&c, 0, Guard(SLOT_ARG));
                    if constexpr (VT == 3) { cocls::future<int> f(a); open_same_gates(); f.sync(); got = observe_fut<VT>(f); }
                    else { cocls::future<T> f(a); open_same_gates(); f.sync(); got = observe_fut<VT>(f); }
                } break;
                case M_RETURN_FUTURE_FN: { cocls::future<T> f = node<cocls::future<T>, VT>(&c, 0, Guard(SLOT_ARG)); open_same_gates(); f.sync(); got = observe_fut<VT>(f); } break;
                case M_POOL_RUN: { cocls::future<T> f = pool.run(node<cocls::async<T>, VT>(&c, 0, Guard(SLOT_ARG))); open_same_gates(); f.sync(); got = observe_fut<VT>(f); } break;
                case M_START_PROMISE_SESSION: launch_session<VT>(&c, 0); open_same_gates(); got = c.received[0]; break;
                default: { auto a = node<cocls::async<T>, VT>(&c, 0, Guard(SLOT_ARG)); } break;
            }
        }
        catch (const val::TestExc &e) { got = 1000 + e.id; }
    catch (const val::PlainExc &e) { got = 1000 + e.id; }
        catch (const cocls::await_canceled_exception &) { got = -1; }
        };
        if (p.unwinding) {
            // the launch happens in the destructor of a local while an unrelated exception propagates through the launching code
            // (a guard object that starts / joins its coroutine on scope exit): everything still runs and is delivered as usual
            struct OnExit { decltype(launch) &fn; ~OnExit() { fn(); } };
            try { OnExit g{launch}; throw val::PlainExc{77}; } catch (const val::PlainExc &e) { HZ_CHECK(e.id == 77, "the exception that was propagating while the coroutine was launched got lost"); }
        } else launch();
        if (p.n[0].mode != M_START_PROMISE_SESSION) c.received[0] = got;       // (session mode: written by the callback, possibly on another thread)
        if (resolver.joinable()) resolver.join();
        // detached parts may still be running on the pool or waiting for the other thread: settle
        int spins = 0;
        for (;;) {
            bool all = true;
            for (size_t k = 0; k < p.n.size(); k++) {
                bool runs = c.root_started && p.n[k].mode != M_DESTROY_UNSTARTED && p.n[k].mode != M_START_PROMISE_CLAIMED;
                if (runs && c.body_done[k] == 0) all = false;
            }
            if (all && hz::slot_get(SLOT_LOCAL) == 0 && hz::slot_get(SLOT_SESSION) == 0) break;
            vrt::yield();
            HZ_CHECK(++spins < 5000, "a started coroutine of the chain never finished (body runs: %d %d %d %d %d)", c.body_runs[0], c.body_runs[1], c.body_runs[2], c.body_runs[3], c.body_runs[4]);
        }
        pool.stop();
        // ---- oracle ----
        for (size_t k = 0; k < p.n.size(); k++) {
            uint8_t m = p.n[k].mode;
            bool runs = c.root_started && m != M_DESTROY_UNSTARTED && m != M_START_PROMISE_CLAIMED;
            HZ_CHECK(c.body_runs[k] == (runs ? 1 : 0), "coroutine #%zu (%s): body executed %d times, expected %d", k, mn[m], c.body_runs[k], runs ? 1 : 0);
            int outcome = (p.n[k].comp == C_THROW || p.n[k].comp == C_RESULT_CTOR_THROWS) ? 1000 + (int)k : (VT == 1 ? 0 : 100 + (int)k);
            bool has_party = runs && m != M_DETACH_DISCARD && m != M_DETACH_AWAIT;
            int expect = has_party ? outcome : -100;
            if (!c.root_started) expect = k == 0 ? -1 : -100;       // the racing drop won: broken promise, nothing below exists
            HZ_CHECK(c.received[k] == expect, "coroutine #%zu (%s, %s): its launching party received %d, expected %d (-100 nobody, >=0 value, 1000+ exception, -1 broken promise)", k, mn[m], cn[p.n[k].comp], c.received[k], expect);
        }
    }
    HZ_CHECK(hz::slot_get(SLOT_ARG) == 0, "%ld coroutine arguments still alive after every frame should be gone", hz::slot_get(SLOT_ARG));
    HZ_CHECK(hz::slot_get(SLOT_LOCAL) == 0, "%ld coroutine locals still alive", hz::slot_get(SLOT_LOCAL));
    HZ_CHECK(hz::slot_get(SLOT_SESSION) == 0, "%ld objects owned by coroutine arguments still alive", hz::slot_get(SLOT_SESSION));
    (void)0;
    if constexpr (VT == 2) val::check_counted_balance("end of case");
    bool nt = p.n.size() >= 2;
    for (auto &x : p.n) if (x.comp != C_VALUE) nt = true;
    hz::set_class(p.n.size() - 1);
    hz::set_nontrivial(nt);
}
inline void run(hz::Reader &r) { Prog p = decode(r); if (p.vt == 0) run_t<0>(p); else if (p.vt == 1) run_t<1>(p); else if (p.vt == 2) run_t<2>(p); else run_t<3>(p); }
static const char *const class_names[] = {"depth 1", "depth 2", "depth 3", "depth 4", "depth 5"};
static const char *const counter_names[] = {"c0"};
} // namespace c04

namespace hz {
static const Info I = {
    "C04", 1, 18, 100000, true, true,
    "rapidcheck generates (program, schedule, faults): result type in {int, void, instance-counted}, a chain of 1..5 scripted async coroutines; each node is launched by its parent (the root by ordinary code) in one of the start modes "
    "{detach discarded, co_await detach(), start()->future, start(live promise), start(already claimed promise), co_await coro, join(), future<T>(coro), future-returning coroutine function, thread_pool::run, destroyed unstarted, start(promise) of a future living in an object that only the coroutine's own argument keeps alive} and completes by "
    "{returning a value, throwing, suspending on a future resolved by the launching thread / by another thread of the virtual runtime}; every coroutine takes a guard argument by value and holds a guard local. "
    "Oracle: body executed exactly once (0 for destroyed-unstarted and start(claimed promise)), the launching party received exactly the value/exception (nobody when detached), argument and local guards all destroyed (never more often than constructed), "
    "instance counts balanced, allocation balance 0 (every frame freed once), ASan, deadlock detector. Non-trivial = depth >= 2 or a non-trivial completion; distinct = hash(decoded program, executed switch trace).",
    c04::class_names, 5, c04::counter_names, 1};
const Info &info() { return I; }
void run_case(Reader &r) { c04::run(r); }
std::string describe(Reader &r) { return c04::describe(c04::decode(r)); }
}
