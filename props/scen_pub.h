// scen_pub.h - publisher/subscriber scenarios: C16 (a) sequential histories, (b) publisher
// thread against subscriber threads on vrt; reused by C03.
#pragma once
#include "common.h"
#include "values.h"

namespace scen_pub {

using ST = cocls::subscribtion_type;
using Pub = cocls::publisher<int>;
using Sub = cocls::subscriber<int>;

// ================================================================ (a) histories
struct Op { uint8_t code, a, b; };
struct SeqProg { uint8_t maxq, minq; std::vector<Op> ops; };      // maxq 0 = unlimited
inline SeqProg decode_seq(hz::Reader &r) {
    SeqProg p; p.maxq = (uint8_t)r.mod(6); p.minq = (uint8_t)(p.maxq ? 1 + r.mod(p.maxq) : 1 + r.mod(3));
    unsigned n = 0;
    while (r.more() && n < 50) { Op o; o.code = (uint8_t)r.mod(11); o.a = r.u8(); o.b = r.u8(); p.ops.push_back(o); n++; }
    return p;
}
static const char *opn[] = {"publish", "publish", "publish", "publish batch", "subscribe(recent)", "subscribe(at position)", "copy subscriber", "next", "kick/leave", "close", "next"};
static const char *modes[] = {"all_values", "skip_if_behind", "skip_to_recent"};
inline std::string describe_seq(const SeqProg &p) {
    hz::Desc d; d << "publisher(max " << (p.maxq ? std::to_string(p.maxq) : std::string("unlimited")) << ", min " << (unsigned)p.minq << "), " << (unsigned)p.ops.size() << " ops:";
    for (auto &o : p.ops) {
        d << " " << opn[o.code];
        if (o.code == 3) d << "(" << (unsigned)(o.a % 5) << ")";
        if (o.code == 4 || o.code == 5) d << "[" << modes[o.a % 3] << "]";
        if (o.code == 7 || o.code == 10) d << "(" << (o.b % 3 == 0 ? "awaited by a coroutine" : o.b % 3 == 1 ? "blocking when ready" : "polled") << ")";
        if (o.code == 8) d << "(" << (o.b % 3 == 0 ? ((o.b & 0x40) ? "kick with the stale pointer of a subscriber that left, if any, else kick" : "kick") : o.b % 3 == 1 ? "kick_me" : "leave") << ")";
        if (o.code == 4 && (o.b & 0x40)) d << "(at the address of a subscriber that left, if any)";
    }
    d << "; destroy publisher, then subscribers";
    return d.s;
}

struct SubM {
    std::unique_ptr<Sub> s;
    int mode = 0;
    long c = 0;               // all_values: last consumed position; skip modes: last seen position
    bool kicked = false;
    bool dead = false;        // first end-of-stream indication seen: nothing is checked afterwards
    bool parked = false;      // a coroutine is suspended in next()
    int parked_result = -100; // result delivered to the parked coroutine: >=0 value, -1 end
    std::vector<int> got;
};

struct SeqStats { unsigned lag2 = 0, parked_woken = 0, ends = 0; };

struct SeqRun {
    std::unique_ptr<Pub> pub;
    std::vector<std::unique_ptr<SubM>> subs;   // stable addresses: parked coroutines hold SubM*
    // memory of subscribers that left: the objects are destroyed, the blocks are kept, so that a stale pointer can be
    // handed to kick() (documented as harmless) and a later subscriber can be built at the address of a former one
    std::vector<void *> graveyard;
    long n = 0;               // number of published values (value == position)
    bool closed = false;
    long maxq = 0, minq = 1;
    SeqStats st;

    cocls::async<void> parked_next(SubM *m) {
        bool more = co_await m->s->next();
        m->parked_result = more ? m->s->value() : -1;
    }
    // judge one result of next() for subscriber m: v>=0 value, -1 end indication, -2 "nothing ready" (polled)
    void judge(SubM &m, int v, const char *how) {
        if (m.dead) return;
        long lag = n - m.c;
        if (lag >= 2) st.lag2++;
        if (v == -2) {
            // polled: "no next item available".  While the model holds unread values this is the only thing a
            // polling consumer sees when it has been left behind -> judged as an end indication
            if (lag == 0 && !closed && !m.kicked) return;
            v = -1;
        }
        if (v == -1) {
            bool legit = m.kicked || (closed && lag == 0) || (maxq && lag > maxq);
            HZ_CHECK(legit, "%s: subscriber[%s] got an end-of-stream indication at position %ld of %ld (lag %ld, max queue %ld, closed %d, kicked %d): not closed-and-drained, not kicked, not too far behind",
                     how, modes[m.mode], m.c, n, lag, maxq, (int)closed, (int)m.kicked);
            m.dead = true; st.ends++;
            return;
        }
        HZ_CHECK(!m.kicked, "%s: kicked subscriber still received value %d", how, v);
        HZ_CHECK(v >= 1 && v <= n, "%s: subscriber received %d, only %ld values were published", how, v, n);
        if (m.mode == 0) HZ_CHECK(v == m.c + 1, "%s: all_values subscriber at position %ld received %d (gap, duplicate or reorder)", how, m.c, v);
        else {
            HZ_CHECK(v > m.c, "%s: %s subscriber moved backwards or repeated: had %ld, received %d", how, modes[m.mode], m.c, v);
            if (m.mode == 2) HZ_CHECK(v == n, "%s: skip_to_recent subscriber received %d, newest published value is %ld", how, v, n);
        }
        m.c = v; m.got.push_back(v);
        HZ_CHECK((long)m.s->position() == v, "%s: position() is %ld after receiving the value published at position %d", how, (long)m.s->position(), v);
    }
    void settle_parked(const char *how) {
        for (auto &pm : subs) if (pm->parked && pm->parked_result != -100) { SubM &m = *pm;
            m.parked = false; st.parked_woken++;
            int v = m.parked_result; m.parked_result = -100;
            judge(m, v, how);
        }
    }
    void check_parked_woken_by_close() {
        for (auto &pm : subs) HZ_CHECK(!pm->parked, "a subscriber parked in next() was not woken by close()/destruction of the publisher");
    }
    void run(const SeqProg &p) {
        maxq = p.maxq; minq = p.minq;
        if (p.maxq) pub.reset(new Pub(p.maxq, p.minq)); else pub.reset(new Pub(std::numeric_limits<std::size_t>::max(), p.minq));
        for (auto &o : p.ops) {
            switch (o.code) {
                case 0: case 1: case 2: if (!closed) { n++; pub->publish((int)n); } break;
                case 3: if (!closed) { std::vector<int> b; unsigned k = o.a % 5; for (unsigned i = 0; i < k; i++) b.push_back((int)(n + 1 + i)); n += k; pub->publish(b.begin(), b.end()); } break;   // (k == 0: an empty batch changes nothing)
                case 4: if (subs.size() < 4 && pub) {
                    subs.emplace_back(new SubM()); SubM &m = *subs.back(); m.mode = o.a % 3; m.c = n;
                    if (!graveyard.empty() && (o.b & 0x40)) { void *mem = graveyard.back(); graveyard.pop_back(); m.s.reset(new (mem) Sub(*pub, (ST)m.mode)); }     // at the address of a subscriber that left
                    else m.s.reset(new Sub(*pub, (ST)m.mode));
                } break;
                case 5: if (subs.size() < 4 && pub && n > 0) {
                    // a position inside the window the documentation promises to retain (min_queue_len)
                    long back = 1 + o.b % minq; if (back > n) back = n;
                    subs.emplace_back(new SubM()); SubM &m = *subs.back(); m.mode = o.a % 3; m.c = n - back; m.s.reset(new Sub(*pub, (std::size_t)m.c, (ST)m.mode));
                } break;
                case 6: if (subs.size() < 4 && !subs.empty()) {
                    SubM &src = *subs[o.a % subs.size()];
                    if (src.dead) break;            // (a source that is suspended in next() may be copied too: the copy has received what the source has received)
                    subs.emplace_back(new SubM()); SubM &m = *subs.back(); m.mode = src.mode; m.c = src.c; m.kicked = false; m.s.reset(new Sub(*src.s));
                    if (src.kicked) m.kicked = false;       // a copy is a fresh registration
                } break;
                case 7: case 10: if (!subs.empty()) {
                    SubM &m = *subs[o.a % subs.size()];
                    if (m.parked) break;
                    // domain restriction: a subscriber is not read any more after its first end-of-stream
                    // indication (what follows is unspecified; observed: skip modes may re-deliver or index
                    // an empty queue there)
                    if (m.dead) break;
                    unsigned style = o.b % 3;
                    bool something = (n - m.c > 0) || closed || m.kicked;
                    if (style == 0) {
                        m.parked = true; m.parked_result = -100;
                        parked_next(&m).detach();
                        if (m.parked_result == -100) HZ_CHECK(!something || m.dead, "next() suspended although %s", closed ? "the publisher is closed" : m.kicked ? "the subscriber was kicked" : "unread values exist");
                    } else if (style == 1 && something) {
                        bool more = (bool)m.s->next();
                        judge(m, more ? m.s->value() : -1, "blocking next()");
                    } else {
                        bool more = m.s->next_ready();
                        judge(m, more ? m.s->value() : -2, "next_ready()");
                    }
                } break;
                case 8: if (!subs.empty()) {
                    size_t k = o.a % subs.size(); SubM &m = *subs[k];
                    unsigned what = o.b % 3;
                    if (what == 0 && pub && !graveyard.empty() && (o.b & 0x40)) pub->kick(static_cast<Sub *>(graveyard[o.a % graveyard.size()]));      // stale pointer of a subscriber that left: nothing happens
                    else if (what == 0 && pub) { pub->kick(m.s.get()); m.kicked = true; }
                    else if (what == 1) { m.s->kick_me(); m.kicked = true; }
                    else if (!m.parked) { Sub *raw = m.s.release(); raw->~Sub(); graveyard.push_back(raw); subs.erase(subs.begin() + (long)k); }
                } break;
                case 9: if (!closed) { pub->close(); closed = true; } break;
            }
            settle_parked(opn[o.code]);
            if (closed) check_parked_woken_by_close();
        }
        closed = true;
        pub.reset();                 // destroying the publisher closes the stream and wakes every parked subscriber
        settle_parked("publisher destruction");
        check_parked_woken_by_close();
        subs.clear();
        for (void *mem : graveyard) ::operator delete(mem);
    }
};

inline void run_seq(const SeqProg &p) {
    SeqStats st;
    { SeqRun R; R.run(p); st = R.st; }
    hz::set_class(st.parked_woken ? 1 : 0);
    hz::set_nontrivial(st.lag2 > 0 || st.parked_woken > 0);
    hz::count(0, st.lag2); hz::count(1, st.parked_woken); hz::count(2, st.ends);
}

// ================================================================ (b) threads
struct Reader_ { uint8_t flavour; uint8_t yields; uint8_t mode; };      // flavour 0 coroutine, 1 blocking
struct MtProg { uint8_t count; uint8_t batch_at; uint8_t pub_yields; uint8_t finish; std::vector<Reader_> rd; uint8_t second_pub; uint8_t late_sub; uint8_t kick0; uint8_t copy0 = 0; uint8_t bounded = 0; };   // bounded: a different, smaller scenario - publisher<Counted> with a finite maximum queue length (1..3) against subscriber threads
//   // copy0: yields before another thread COPIES subscriber 0 (while its owner reads) and reads the copy to the end   // late_sub / kick0: 0 no, else yields before a late subscriber subscribes / before subscriber 0 is kicked   // finish 0 close, 1 destroy; second_pub: values published concurrently by a 2nd thread
inline MtProg decode_mt(hz::Reader &r) {
    MtProg p; p.count = (uint8_t)(1 + r.mod(5)); p.batch_at = (uint8_t)r.mod(6); p.pub_yields = (uint8_t)r.mod(3); p.finish = (uint8_t)r.mod(2);
    unsigned n = 1 + r.mod(3);
    for (unsigned i = 0; i < n; i++) { Reader_ x; x.flavour = (uint8_t)r.mod(3); x.yields = (uint8_t)r.mod(3); x.mode = (uint8_t)(r.mod(4) == 0 ? 1 + r.mod(2) : 0); p.rd.push_back(x); }
    p.second_pub = (uint8_t)(r.mod(3) == 0 ? 1 + r.mod(3) : 0);
    p.late_sub = (uint8_t)(r.mod(3) == 0 ? 1 + r.mod(4) : 0);
    p.kick0 = (uint8_t)(r.mod(4) == 0 ? 1 + r.mod(4) : 0);
    if (p.finish == 1 || p.second_pub) { p.late_sub = 0; p.kick0 = 0; }      // both need the publisher object alive and value == position
    p.copy0 = (uint8_t)(r.mod(3) == 1 ? 1 + r.mod(4) : 0);
    if (p.finish == 1 || p.second_pub || p.kick0) p.copy0 = 0;
    p.bounded = (uint8_t)(r.mod(4) == 2 ? 1 + r.mod(3) : 0);
    return p;
}
inline std::string describe_mt(const MtProg &p) {
    hz::Desc d;
    if (p.bounded) { d << "publisher<instance-counted value>(max queue " << (unsigned)p.bounded << ", min 1): a thread publishes " << (unsigned)(p.count + 2) << " values and closes; subscriber threads:"; for (auto &x : p.rd) d << " [blocking next(), " << modes[x.mode] << ", yield*" << (unsigned)x.yields << "]"; return d.s; } d << "publisher thread publishes " << (unsigned)p.count << " values (batch of 2 at #" << (unsigned)p.batch_at << ")";
    if (p.second_pub) d << ", a second thread publishes " << (unsigned)p.second_pub << " values concurrently";
    d << ", then " << (p.finish ? "the publisher is destroyed" : "close()");
    if (p.late_sub) d << "; a late all_values subscriber subscribes concurrently (after " << (unsigned)p.late_sub << " yields)";
    if (p.kick0) d << "; subscriber 0 is kicked concurrently (after " << (unsigned)p.kick0 << " yields)";
    if (p.copy0) d << "; another thread copies subscriber 0 (after " << (unsigned)p.copy0 << " yields) and reads the copy to the end";
    d << "; subscriber threads:";
    for (auto &x : p.rd) d << " [" << (x.flavour == 2 ? "range-for over the subscriber" : x.flavour ? "blocking next()" : "co_await next()") << ", " << modes[x.mode] << ", yield*" << (unsigned)x.yields << "]";
    return d.s;
}

struct MtRun {
    std::unique_ptr<Pub> pub;
    std::deque<std::unique_ptr<Sub>> subs;
    std::vector<std::vector<int>> got;
    std::vector<long> start_pos;
    long total = 0;
    const MtProg *p;

    cocls::async<void> reader_coro(size_t i) {
        Sub &s = *subs[i];
        for (;;) {
            hz::upoints(p->rd[i].yields);
            bool more = co_await s.next();
            if (!more) break;
            got[i].push_back(s.value());
        }
    }
    void reader_thread(size_t i) {
        if (p->rd[i].flavour == 0) { cocls::future<void> f = reader_coro(i).start(); f.wait(); return; }
        Sub &s = *subs[i];
        if (p->rd[i].flavour == 2) {
            // iterator style; position() is the index of the value just received (single publisher: value == position)
            for (int &v : s) { got[i].push_back(v); long pos = (long)s.position(); if (!p->second_pub) HZ_CHECK(pos == v, "subscriber %zu: position() is %ld after receiving the value published at position %d", i, pos, v); hz::upoints(p->rd[i].yields); }
            return;
        }
        for (;;) {
            hz::upoints(p->rd[i].yields);
            bool more = (bool)s.next();
            if (!more) break;
            got[i].push_back(s.value());
        }
    }
    void run(const MtProg &prog) {
        p = &prog;
        pub.reset(new Pub());
        got.resize(prog.rd.size());
        // subscribers are registered before the first value: each must see the whole stream
        for (size_t i = 0; i < prog.rd.size(); i++) subs.emplace_back(new Sub(*pub, (ST)prog.rd[i].mode));
        std::vector<std::thread> th;
        for (size_t i = 0; i < prog.rd.size(); i++) th.emplace_back([this, i] { reader_thread(i); });
        bool two = prog.second_pub != 0;
        // one publisher: value == stream position.  Two publishers: thread p publishes p*1000+k (the stream
        // order between the two is decided by the lock), the stream is closed after both are done
        std::thread pt([this, &prog, two] {
            for (unsigned k = 0; k < prog.count; k++) {
                hz::upoints(prog.pub_yields);
                if (k == prog.batch_at) { std::vector<int> e; pub->publish(e.begin(), e.end());    // an empty batch: nobody may notice
                                          std::vector<int> b{(int)total + 1, (int)total + 2}; total += 2; pub->publish(b.begin(), b.end()); }
                else { total++; pub->publish((int)total); }
            }
            hz::upoints(prog.pub_yields);
            if (!two) { if (prog.finish == 0) pub->close(); else pub.reset(); }
        });
        // a subscriber that registers while values are being published: its stream starts somewhere, then is gap-free
        std::vector<int> late_got; std::thread late;
        if (prog.late_sub) late = std::thread([this, &prog, &late_got] {
            hz::upoints(prog.late_sub);
            Sub s(*pub, ST::all_values);
            for (;;) { bool more = (bool)s.next(); if (!more) break; late_got.push_back(s.value()); }
        });
        // a copy of subscriber 0 taken by another thread while the owner reads the original: it continues independently
        // from the position it was copied at (the position the copy reports right after its construction)
        std::vector<int> copy_got; long copy_p0 = -1; std::thread copier;
        if (prog.copy0) copier = std::thread([this, &prog, &copy_got, &copy_p0] {
            hz::upoints(prog.copy0);
            Sub c(*subs[0]);
            copy_p0 = (long)c.position();
            for (;;) { bool more = (bool)c.next(); if (!more) break; copy_got.push_back(c.value()); }
        });
        if (prog.kick0) { hz::upoints(prog.kick0); pub->kick(subs[0].get()); }
        std::thread pt2;
        if (two) pt2 = std::thread([this, &prog] { for (unsigned k = 0; k < prog.second_pub; k++) { hz::upoint(); pub->publish(1000 + (int)k + 1); } });
        pt.join();
        if (two) { pt2.join(); if (prog.finish == 0) pub->close(); else pub.reset(); }
        for (auto &t : th) t.join();
        if (late.joinable()) {
            late.join();
            for (size_t k = 1; k < late_got.size(); k++) HZ_CHECK(late_got[k] == late_got[k - 1] + 1, "late subscriber: value %d follows %d (gap, duplicate or reorder)", late_got[k], late_got[k - 1]);
            if (!late_got.empty()) HZ_CHECK(late_got.back() == (int)total, "late subscriber's stream ended at %d although %ld values were published before close() and it was never kicked", late_got.back(), total);
        }
        if (copier.joinable()) {
            copier.join();
            if (prog.rd[0].mode == 0) {
                for (size_t k = 0; k < copy_got.size(); k++)
                    HZ_CHECK(copy_got[k] == (int)(copy_p0 + 1 + (long)k), "copy of subscriber 0 (copied at position %ld): value #%zu is %d, expected %ld (gap, duplicate or reorder)", copy_p0, k, copy_got[k], copy_p0 + 1 + (long)k);
                HZ_CHECK((long)copy_got.size() == std::max(0L, total - copy_p0), "copy of subscriber 0 (copied at position %ld) saw the end of the stream after %zu values although %ld values were published, the queue is unlimited and nobody was kicked", copy_p0, copy_got.size(), total);
            } else {
                for (size_t k = 1; k < copy_got.size(); k++) HZ_CHECK(copy_got[k] > copy_got[k - 1], "copy of a %s subscriber moved backwards or repeated: %d after %d", modes[prog.rd[0].mode], copy_got[k], copy_got[k - 1]);
                // (a skipping subscriber copied after it saw the end of the stream is outside the specified domain, like reading on after the end: range only)
                for (int v : copy_got) HZ_CHECK(v >= 1 && v <= total, "copy of subscriber 0 (copied at position %ld) received %d, %ld values were published", copy_p0, v, total);
            }
            hz::count(3, 1);
        }
        if (two) {
            for (size_t i = 0; i < got.size(); i++) {
                auto &g = got[i];
                int last[2] = {0, 0}; std::set<int> seen;
                for (int v : g) {
                    int pbl = v >= 1000 ? 1 : 0, k = v % 1000;
                    HZ_CHECK(seen.insert(v).second, "subscriber %zu received value %d twice", i, v);
                    HZ_CHECK(k > last[pbl], "subscriber %zu received value %d of publisher %d after its value %d (publisher order violated)", i, k, pbl, last[pbl]);
                    HZ_CHECK(k >= 1 && k <= (pbl ? (int)prog.second_pub : (int)total), "subscriber %zu received %d which nobody published", i, v);
                    last[pbl] = k;
                }
                if (prog.rd[i].mode == 0)
                    HZ_CHECK((long)g.size() == total + prog.second_pub, "all_values subscriber %zu saw the end of the stream after %zu of %ld values although the queue is unlimited and it was never kicked", i, g.size(), total + prog.second_pub);
            }
            subs.clear(); pub.reset();
            return;
        }
        for (size_t i = 0; i < got.size(); i++) {
            auto &g = got[i];
            if (prog.rd[i].mode == 0) {
                for (size_t k = 0; k < g.size(); k++)
                    HZ_CHECK(g[k] == (int)k + 1, "all_values subscriber %zu: value #%zu is %d, expected %zu (gap, duplicate or reorder)", i, k, g[k], k + 1);
                if (!(prog.kick0 && i == 0))
                    HZ_CHECK((long)g.size() == total, "all_values subscriber %zu saw the end of the stream after %zu of %ld values although the queue is unlimited and it was never kicked", i, g.size(), total);
            } else {
                for (size_t k = 1; k < g.size(); k++) HZ_CHECK(g[k] > g[k - 1], "%s subscriber %zu moved backwards or repeated: %d after %d", modes[prog.rd[i].mode], i, g[k], g[k - 1]);
                for (int v : g) HZ_CHECK(v >= 1 && v <= total, "subscriber %zu received %d, %ld values were published", i, v, total);
            }
        }
        subs.clear();
        pub.reset();
    }
};
// bounded queue of instance-counted values: a subscriber that falls behind may legitimately see the end of the stream, but every value
// it does receive is one that was published - complete and alive - and later than the one before
// (deque::resize inside the publisher needs a default constructor even when it only shrinks)
struct CItem : val::Counted { CItem() : val::Counted(0) {} explicit CItem(int v) : val::Counted(v) {} };
inline void run_mt_bounded(const MtProg &p) {
    using PubC = cocls::publisher<CItem>; using SubC = cocls::subscriber<CItem>;
    {
        PubC pub(p.bounded, 1);
        const int total = p.count + 2;
        std::vector<std::unique_ptr<SubC>> subs; std::vector<std::vector<int>> got(p.rd.size());
        for (size_t i = 0; i < p.rd.size(); i++) subs.emplace_back(new SubC(pub, (ST)p.rd[i].mode));
        std::vector<std::thread> th;
        for (size_t i = 0; i < p.rd.size(); i++) th.emplace_back([&, i] {
            SubC &s = *subs[i];
            for (;;) { hz::upoints(p.rd[i].yields); bool more = (bool)s.next(); if (!more) break; got[i].push_back(s.value().val()); }
        });
        std::thread pt([&] { for (int k = 1; k <= total; k++) { hz::upoints(p.pub_yields); pub.publish(CItem(k)); } hz::upoints(p.pub_yields); pub.close(); });
        pt.join(); for (auto &t : th) t.join();
        for (size_t i = 0; i < got.size(); i++) {
            int last = 0;
            for (int v : got[i]) {
                HZ_CHECK(v >= 1 && v <= total, "subscriber %zu of a bounded publisher received %d: not one of the %d published values (a destroyed, moved-from or torn item)", i, v, total);
                HZ_CHECK(v > last, "subscriber %zu of a bounded publisher received %d after %d (duplicate or reorder)", i, v, last);
                if (p.rd[i].mode == 0) HZ_CHECK(last == 0 || v == last + 1, "all_values subscriber %zu of a bounded publisher received %d after %d: a gap without an end-of-stream indication", i, v, last);
                last = v;
            }
        }
        subs.clear();
    }
    val::check_counted_balance("end of case");
    hz::count(4, 1);
}
inline void run_mt(const MtProg &p) {
    if (p.bounded) { run_mt_bounded(p); hz::set_class(2 + (vrt::stats().preempt_in_lib ? 1 : 0)); hz::set_nontrivial(vrt::stats().switches > 0); return; }
    { MtRun R; R.run(p); }
    hz::set_class(2 + (vrt::stats().preempt_in_lib ? 1 : 0));
    hz::set_nontrivial(vrt::stats().switches > 0);
}

inline void run(hz::Reader &r) { unsigned sel = r.mod(3); if (sel < 2) run_seq(decode_seq(r)); else run_mt(decode_mt(r)); }
inline std::string describe(hz::Reader &r) { unsigned sel = r.mod(3); if (sel < 2) return "history: " + describe_seq(decode_seq(r)); return "threads: " + describe_mt(decode_mt(r)); }
static const char *const class_names[] = {"history", "history:parked-subscriber-woken", "threads:no-lib-preempt", "threads:preempted-in-library"};
static const char *const counter_names[] = {"reads_with_lag>=2", "parked_subscribers_woken", "end_indications", "subscriber_copied_by_another_thread", "bounded_publisher_of_counted_values_cases"};

} // namespace scen_pub
