// C05 - coroutine-mode scheduling: run-to-suspension, FIFO ready queue, full drain.
// Online comparison of the real execution with a reference model of the ready queue.
#include "common.h"
#include "values.h"

namespace c05 {

enum St : uint8_t { S_SPAWN, S_PAUSE, S_RESOLVE_DISCARD, S_RESOLVE_AWAIT, S_RESOLVE_KEEP, S_AWAIT, S_LOCK, S_UNLOCK_DISCARD, S_UNLOCK_AWAIT, S_PUSH, S_POP, S_START_NESTED, S_NESTED_CALL, S_PARK, S_UNPARK, S_POOL_AWAIT, S_POOL_STOP, S_GEN_STEP, S_COUNT };
struct Step { uint8_t kind, arg; uint8_t unwinding = 0; };   // unwinding (operations from ordinary code): performed by a destructor while an exception propagates
constexpr int NF = 4, MAXC = 8;
struct Prog { std::vector<std::vector<Step>> co; std::vector<Step> main_ops; };

inline Prog decode(hz::Reader &r) {
    Prog p;
    unsigned n = 1 + r.mod(MAXC);
    for (unsigned i = 0; i < n; i++) {
        std::vector<Step> s; unsigned len = r.mod(7); bool owns = false;
        for (unsigned k = 0; k < len; k++) {
            Step x; x.kind = (uint8_t)r.mod(S_COUNT); x.arg = (uint8_t)r.mod(x.kind == S_START_NESTED ? 24 : 2 * NF);
            if (x.kind != S_START_NESTED && x.arg >= NF) x.arg = 0;      // half of the future operations meet at future #0: several coroutines waiting for ONE resolution (4 and more: the suspend point's heap mode)
            if (x.kind == S_LOCK) { if (owns) x.kind = S_PAUSE; else owns = true; }
            else if (x.kind == S_UNLOCK_DISCARD || x.kind == S_UNLOCK_AWAIT) { if (!owns) x.kind = S_SPAWN; else owns = false; }
            s.push_back(x);
        }
        p.co.push_back(std::move(s));
    }
    unsigned m = 1 + r.mod(4);
    for (unsigned i = 0; i < m; i++) { Step x; unsigned k = r.mod(3); x.kind = k == 0 ? S_SPAWN : k == 1 ? S_RESOLVE_DISCARD : S_PUSH; x.arg = (uint8_t)r.mod(NF); p.main_ops.push_back(x); }
    p.main_ops[0].kind = S_SPAWN;
    for (auto &x : p.main_ops) x.unwinding = (uint8_t)(r.mod(3) == 1);     // trailing bytes
    return p;
}
static const char *sn[] = {"spawn+detach", "pause", "resolve(discard)", "co_await resolve", "resolve(kept, released later)", "await future", "lock", "unlock(discard)", "co_await unlock", "push", "pop",
                           "start() a child that runs nested and finishes without suspending (or suspends on a private future and is released by the parent)",
                           "coro_queue::install_queue_and_call (explicit nested activation: flushes the queue before it returns)",
                           "park (suspend on a hand-written awaiter that keeps the handle)", "coro_queue::resume(handle of the longest parked coroutine)",
                           "co_await thread_pool (its only worker is occupied: the coroutine waits in the pool's queue until the pool is stopped, which cancels it)",
                           "thread_pool::stop() (every coroutine waiting in the pool's queue is cancelled, i.e. made ready)",
                           "synchronous step of a generator (next()/value() or range-for): an ordinary nested call, nothing that is queued may run inside it"};
inline std::string describe(const Prog &p) {
    hz::Desc d; d << (unsigned)p.co.size() << " coroutines;";
    for (size_t i = 0; i < p.co.size(); i++) { d << " C" << (unsigned)i << ":"; for (auto &s : p.co[i]) { d << " " << sn[s.kind]; if (s.kind >= S_RESOLVE_DISCARD && s.kind <= S_AWAIT) d << "#" << (unsigned)s.arg; } d << ";"; }
    d << " from ordinary code:"; for (auto &s : p.main_ops) { d << " " << sn[s.kind]; if (s.kind == S_RESOLVE_DISCARD) d << "#" << (unsigned)s.arg; if (s.unwinding) d << "[by a destructor during stack unwinding]"; }
    d << "; then settle everything";
    return d.s;
}

// ------------------------------------------------------------------ reference model
struct Model {
    std::deque<std::vector<int>> ready;       // FIFO of batches (coroutines readied by one operation: order inside not asserted)
    int running = -1;                          // -1: nobody (control is in ordinary code or about to switch)
    std::vector<int> direct;                   // coroutines that may be entered next by direct transfer (co_await suspend point)
    // ordinary code releasing a suspend point resumes its coroutines DIRECTLY, one after another (they are
    // not queued): the loop continues whenever control returns to it, and only then is the queue flushed
    std::vector<int> loop;
    std::vector<int> nest;                     // coroutines waiting inside an explicit nested activation (install_queue_and_call)
    // coroutines cancelled by a thread_pool::stop() that ORDINARY code called: each one is resumed by a separate activation
    // (it runs, everything it readied is flushed, then the next one) - any of them may be next once everything else is drained
    std::vector<int> serial;
    std::vector<int> pool_waiters; bool pool_stopped = false;
    enum Yield { RETURN_TO_RESUMER, TRANSFER_QUEUE, TRANSFER_DIRECT } yield = RETURN_TO_RESUMER;
    bool fut_resolved[NF] = {}; std::vector<int> fut_waiters[NF];
    int mx_owner = -1; std::deque<int> mx_waiters;
    int q_items = 0; std::deque<int> q_waiters;
    int next_spawn = 0; int finished = 0;
    unsigned readied_by_discard = 0, max_ready = 0;

    void add_batch(std::vector<int> b) { if (!b.empty()) { readied_by_discard += (unsigned)b.size(); ready.push_back(std::move(b)); size_t n = 0; for (auto &x : ready) n += x.size(); if (n > max_ready) max_ready = (unsigned)n; } }
    const std::vector<int> *candidates() {
        if (yield == TRANSFER_DIRECT && !direct.empty()) return &direct;
        if (yield == RETURN_TO_RESUMER && !loop.empty() && nest.empty()) return &loop;     // (a nested activation flushes the QUEUE; the outer direct-resume loop continues only after it returned)
        if (!ready.empty()) return &ready.front();
        return serial.empty() ? nullptr : &serial;
    }
    bool allowed_next(int id) { auto c = candidates(); return c && std::find(c->begin(), c->end(), id) != c->end(); }
    void take(int id) {
        if (candidates() == &loop) { loop.erase(std::find(loop.begin(), loop.end(), id)); running = id; return; }
        if (candidates() == &serial) { serial.erase(std::find(serial.begin(), serial.end(), id)); running = id; yield = RETURN_TO_RESUMER; return; }
        if (candidates() == &direct) {
            // direct transfer out of an awaited suspend point: the others are queued (one batch), then the awaiting coroutine
            std::vector<int> rest; for (int x : direct) if (x != id) rest.push_back(x);
            int awaiting = direct_awaiter; direct.clear();
            if (!rest.empty()) ready.push_back(rest);
            ready.push_back({awaiting});
        } else {
            auto &b = ready.front(); b.erase(std::find(b.begin(), b.end(), id)); if (b.empty()) ready.pop_front();
        }
        running = id;
    }
    int direct_awaiter = -1;
};

inline cocls::generator<int> c05_counting_gen() { for (int i = 1;; i++) co_yield i; }
struct World {
    const Prog *p; Model m;
    cocls::generator<int> gen = c05_counting_gen(); int gen_expect = 1;
    std::unique_ptr<cocls::future<int>> fut[NF]; cocls::promise<int> prom[NF];
    cocls::mutex mx; cocls::queue<int> q;
    std::unique_ptr<cocls::thread_pool> pool;      // one worker, occupied by a job that lasts until the pool is stopped
    // children started nested that suspend on a private gate: gate and result future outlive the parent's frame
    std::vector<std::unique_ptr<cocls::future<int>>> nested_gates; std::vector<std::unique_ptr<cocls::future<void>>> nested_results;
    std::vector<std::pair<int, std::coroutine_handle<>>> parked;      // coroutines suspended on the hand-written awaiter, oldest first
    int resumes_while_running = 0;
    cocls::thread_pool &the_pool() {
        if (!pool) {
            pool.reset(new cocls::thread_pool(1));
            cocls::thread_pool *pp = pool.get();
            pool->run_detached([pp] { while (!pp->is_stopped()) vrt::yield(); });
        }
        return *pool;
    }
    bool running_flag[MAXC] = {};
    int step_events = 0;

    // called by a coroutine whenever it (re)gains control
    void on_run(int id, const char *where) {
        step_events++;
        if (m.running == id) return;
        HZ_CHECK(m.running == -1, "coroutine C%d runs (%s) while C%d is running and has not suspended (run-to-suspension violated)", id, where, m.running);
        HZ_CHECK(m.allowed_next(id), "coroutine C%d runs (%s) out of turn: the ready queue's front batch is %s (FIFO / pause / hand-over order violated)", id, where, front_str().c_str());
        m.take(id);
    }
    std::string front_str() {
        std::string s = "{";
        const std::vector<int> *b = m.candidates();
        if (b) for (int x : *b) s += "C" + std::to_string(x) + " ";
        return s + "}";
    }
    // model effect: the running coroutine suspends (or finishes): somebody else continues
    void model_suspend(Model::Yield y = Model::RETURN_TO_RESUMER) { m.running = -1; m.yield = y; }
    void main_release(std::vector<int> b) { m.readied_by_discard += (unsigned)b.size(); m.loop = std::move(b); m.yield = Model::RETURN_TO_RESUMER; }
    std::vector<int> model_resolve(int j) { std::vector<int> w; if (!m.fut_resolved[j]) { m.fut_resolved[j] = true; w.swap(m.fut_waiters[j]); } return w; }
    std::vector<int> model_unlock() { std::vector<int> w; if (!m.mx_waiters.empty()) { m.mx_owner = m.mx_waiters.front(); m.mx_waiters.pop_front(); w.push_back(m.mx_owner); } else m.mx_owner = -1; return w; }
    std::vector<int> model_push() { std::vector<int> w; if (!m.q_waiters.empty()) { w.push_back(m.q_waiters.front()); m.q_waiters.pop_front(); } else m.q_items++; return w; }
    // ordinary code: after every operation everything that was readied has run (full drain)
    void check_drained(const char *after) {
        HZ_CHECK(m.running == -1, "%s returned to ordinary code while the model still has C%d running", after, m.running);
        HZ_CHECK(m.ready.empty() && m.direct.empty() && m.loop.empty() && m.serial.empty(), "%s returned to ordinary code although ready coroutines were left un-run: %s", after, front_str().c_str());
        HZ_CHECK(!cocls::coro_queue::is_active(), "%s: coroutine queue still active in ordinary code", after);
    }
};

inline cocls::async<void> script(World *w, int id);
// a user-written awaiter: keeps the handle, somebody hands it to coro_queue::resume() later (documented: "resume in queue")
struct ParkAw {
    World *w; int id;
    bool await_ready() const noexcept { return false; }
    void await_suspend(std::coroutine_handle<> h) { w->parked.push_back({id, h}); }
    void await_resume() const noexcept {}
};

// child started with start() from inside a running coroutine: documented to run immediately, nested, like a
// function call.  It performs only non-suspending steps (it may ready other coroutines) and finishes: control
// must come back to the parent - nothing that is queued may run in between.
// Variant (gate != nullptr): after its step the child suspends on a pending private future.  Control must come
// back to the PARENT (the child was entered by a plain nested resume, the parent has not suspended); the child is
// continued from the queue after the parent released the gate.
inline cocls::async<void> nested_child(World *w, int parent, int cid, uint8_t a, cocls::future<int> *gate = nullptr) {
    Model &m = w->m;
    w->on_run(cid, "nested child start");
    int j = a % NF;
    switch ((a >> 2) % 3) {
        case 0: m.add_batch(w->model_resolve(j)); w->prom[j](1); break;
        case 1: m.add_batch(w->model_push()); w->q.push(5); break;
        default: break;
    }
    if (gate) {
        m.running = parent;          // suspending: the nested resume() returns to the parent, nobody else may run
        int v = co_await *gate; (void)v;
        w->on_run(cid, "nested child continued from the queue");
        w->model_suspend();          // finishes as an ordinary queued coroutine
        co_return;
    }
    w->on_run(cid, "nested child finish");
    m.running = parent;              // the nested resume() returns to the parent
    co_return;
}

inline void spawn_from(World *w) {
    Model &m = w->m;
    if (m.next_spawn >= (int)w->p->co.size()) return;
    int id = m.next_spawn++;
    if (m.running == -1) w->main_release({id}); else m.add_batch({id});
    script(w, id).detach();          // discarded suspend point
}

inline cocls::async<void> script(World *w, int id) {
    Model &m = w->m;
    cocls::mutex::ownership own;
    w->on_run(id, "start");
    const std::vector<Step> &steps = w->p->co[(size_t)id];
    for (size_t i = 0; i < steps.size(); i++) {
        const Step &s = steps[i];
        int j = s.arg % NF;
        w->on_run(id, sn[s.kind]);
        switch (s.kind) {
            case S_SPAWN: spawn_from(w); break;
            case S_PAUSE: m.add_batch({id}); w->model_suspend(Model::TRANSFER_QUEUE); co_await cocls::pause(); break;
            case S_RESOLVE_DISCARD: m.add_batch(w->model_resolve(j)); w->prom[j](1); break;
            case S_RESOLVE_AWAIT: {
                std::vector<int> ws = w->model_resolve(j);
                if (!ws.empty()) { m.direct = ws; m.direct_awaiter = id; w->model_suspend(Model::TRANSFER_DIRECT); }
                co_await w->prom[j](1);
            } break;
            case S_RESOLVE_KEEP: {
                std::vector<int> ws = w->model_resolve(j);
                auto sp = w->prom[j](1);
                w->on_run(id, "between resolve and release of the kept suspend point");     // nobody may have run
                m.add_batch(ws);
                sp.clear();
            } break;
            case S_AWAIT: if (!m.fut_resolved[j]) { m.fut_waiters[j].push_back(id); w->model_suspend(); } { int v = co_await *w->fut[j]; (void)v; } break;
            case S_LOCK: {
                if (m.mx_owner == -1) m.mx_owner = id; else { m.mx_waiters.push_back(id); w->model_suspend(); }
                own = co_await w->mx.lock();
            } break;
            case S_UNLOCK_DISCARD: m.add_batch(w->model_unlock()); own.release(); break;
            case S_UNLOCK_AWAIT: {
                std::vector<int> ws = w->model_unlock();
                if (!ws.empty()) { m.direct = ws; m.direct_awaiter = id; w->model_suspend(Model::TRANSFER_DIRECT); }
                co_await own.release();
            } break;
            case S_PUSH: m.add_batch(w->model_push()); w->q.push(5); break;
            case S_PARK: w->model_suspend(); co_await ParkAw{w, id}; break;
            case S_GEN_STEP: {
                // a synchronous generator used by a running coroutine is stepped like a function call
                if (s.arg & 1) { bool more = (bool)w->gen.next(); HZ_CHECK(more && w->gen.value() == w->gen_expect, "synchronous generator step returned %d, expected %d", more ? w->gen.value() : -1, w->gen_expect); w->gen_expect++; }
                else { int n = 0; for (int v : w->gen) { HZ_CHECK(v == w->gen_expect, "range-for over the generator delivered %d, expected %d", v, w->gen_expect); w->gen_expect++; if (++n == 2) break; } }
                w->on_run(id, "after a synchronous generator step");
            } break;
            case S_POOL_AWAIT: {
                cocls::thread_pool &pool = w->the_pool();
                // a stopped pool cancels at once: the coroutine is made ready (queued) from inside its own suspension
                if (m.pool_stopped) m.add_batch({id}); else m.pool_waiters.push_back(id);
                w->model_suspend();
                bool cancelled = false;
                try { co_await pool; } catch (const cocls::await_canceled_exception &) { cancelled = true; }
                HZ_CHECK(cancelled, "co_await pool continued without exception although the pool's only worker never got to it");
            } break;
            case S_POOL_STOP: {
                cocls::thread_pool &pool = w->the_pool();
                // stop() called by a running coroutine: whoever is cancelled becomes ready - and waits until this coroutine suspends
                std::vector<int> ws; ws.swap(m.pool_waiters); m.pool_stopped = true;
                m.add_batch(ws);
                pool.stop();
                w->on_run(id, "after thread_pool::stop() returned");
            } break;
            case S_UNPARK: if (!w->parked.empty()) {
                // a handle passed to coro_queue::resume() while a coroutine is running is QUEUED (also when the queue is empty)
                auto pk = w->parked.front(); w->parked.erase(w->parked.begin());
                m.add_batch({pk.first}); cocls::coro_queue::resume(pk.second);
                w->on_run(id, "after coro_queue::resume() returned");
            } break;
            case S_START_NESTED: {
                int cid = 100 + id * 8 + (int)i;
                m.running = cid;
                if (s.arg >= 12) {
                    w->nested_gates.emplace_back(new cocls::future<int>()); cocls::promise<int> gp = w->nested_gates.back()->get_promise();
                    w->nested_results.emplace_back(new cocls::future<void>(nested_child(w, id, cid, (uint8_t)(s.arg - 12), w->nested_gates.back().get()).start()));
                    HZ_CHECK(!w->nested_results.back()->ready(), "a child that suspended on a pending future is reported finished");
                    HZ_CHECK(m.running == id, "start() of a child that suspends returned to C%d while the model has C%d running", id, m.running);
                    w->on_run(id, "after the nested start() of a suspending child returned");
                    m.add_batch({cid}); gp(1);            // release it: queued behind everything that is already ready
                    break;
                }
                cocls::future<void> f = nested_child(w, id, cid, s.arg).start();
                HZ_CHECK(f.ready(), "a child that never suspends was not finished when start() returned");
                w->on_run(id, "after the nested start() returned");
            } break;
            case S_NESTED_CALL: {
                // documented: a nested activation may be installed while a queue is active; everything queued is
                // resumed before the call returns (explicit nested call: not a pre-emption of the caller)
                cocls::coro_queue::install_queue_and_call([&] {
                    if (s.arg & 1) { m.add_batch(w->model_resolve(j)); w->prom[j](1); }
                    m.nest.push_back(id); w->model_suspend(Model::RETURN_TO_RESUMER);
                });
                HZ_CHECK(!m.nest.empty() && m.nest.back() == id && m.running == -1 && m.ready.empty() && m.direct.empty(),
                         "nested activation of C%d returned although ready coroutines were left un-run or somebody is still running (running C%d, front %s)", id, m.running, w->front_str().c_str());
                m.nest.pop_back(); m.running = id; m.yield = Model::RETURN_TO_RESUMER;
                HZ_CHECK(cocls::coro_queue::is_active(), "coroutine queue is not active after a nested activation returned although a coroutine is still running under it");
            } break;
            case S_POP: {
                if (m.q_items > 0) m.q_items--; else { m.q_waiters.push_back(id); w->model_suspend(); }
                int v = co_await w->q.pop(); (void)v;
            } break;
            default: break;
        }
    }
    w->on_run(id, "finish");
    // the ownership (a local) is released when the frame dies: same effect as unlock(discard)
    if (m.mx_owner == id) m.add_batch(w->model_unlock());
    m.finished++;
    w->model_suspend();
}

inline void run(hz::Reader &r) {
    Prog p = decode(r);
    unsigned readied = 0, maxq = 0; int events = 0;
    {
        auto w = std::make_unique<World>(); w->p = &p;
        for (int j = 0; j < NF; j++) { w->fut[j].reset(new cocls::future<int>()); w->prom[j] = w->fut[j]->get_promise(); }
        Model &m = w->m;
        for (auto &s : p.main_ops) {
            auto perform = [&] {
                switch (s.kind) {
                    case S_SPAWN: spawn_from(w.get()); break;
                    case S_RESOLVE_DISCARD: w->main_release(w->model_resolve(s.arg % NF)); w->prom[s.arg % NF](1); break;
                    default: w->main_release(w->model_push()); w->q.push(5); break;
                }
            };
            if (s.unwinding) {
                // the operation is performed by the destructor of a local while an exception propagates through ordinary code
                // (a guard object resolving / pushing / starting on scope exit): everything it readies still runs before it returns
                struct OnExit { decltype(perform) &fn; ~OnExit() { fn(); } };
                try { OnExit g{perform}; throw val::PlainExc{1}; } catch (const val::PlainExc &) {}
            } else perform();
            w->check_drained(sn[s.kind]);
        }
        // settle: spawn what is left, satisfy everything somebody may wait for, until every coroutine finished
        for (int round = 0; round < 64 && m.finished < (int)p.co.size(); round++) {
            if (m.next_spawn < (int)p.co.size()) { spawn_from(w.get()); w->check_drained("spawn"); continue; }
            bool did = false;
            for (int j = 0; j < NF; j++) if (!m.fut_resolved[j]) { w->main_release(w->model_resolve(j)); w->prom[j](1); w->check_drained("resolve"); did = true; }
            if (!m.q_waiters.empty()) { w->main_release(w->model_push()); w->q.push(5); w->check_drained("push"); did = true; }
            if (w->pool && !m.pool_stopped) { m.serial.swap(m.pool_waiters); m.pool_stopped = true; m.readied_by_discard += (unsigned)m.serial.size(); m.yield = Model::RETURN_TO_RESUMER; w->pool->stop(); w->check_drained("thread_pool::stop() from ordinary code"); did = true; }
            if (!w->parked.empty()) { auto pk = w->parked.front(); w->parked.erase(w->parked.begin()); w->main_release({pk.first}); cocls::coro_queue::resume(pk.second); w->check_drained("coro_queue::resume from ordinary code"); did = true; }
            HZ_CHECK(did || m.finished == (int)p.co.size(), "harness: coroutines blocked with nothing left to satisfy (finished %d of %zu)", m.finished, p.co.size());
        }
        HZ_CHECK(m.finished == (int)p.co.size(), "%d of %zu coroutines finished", m.finished, p.co.size());
        for (int j = 0; j < NF; j++) if (!m.fut_resolved[j]) { w->prom[j](1); m.fut_resolved[j] = true; }
        w->check_drained("end");
        w->pool.reset();
        for (auto &f : w->nested_results) HZ_CHECK(f->ready(), "a nested child that was released did not finish");
        readied = m.readied_by_discard; maxq = m.max_ready; events = w->step_events;
    }
    hz::set_class(p.co.size() >= 3 ? (maxq >= 2 ? 2 : 1) : 0);
    hz::set_nontrivial(p.co.size() >= 3 && readied >= 1);
    hz::count(0, readied); hz::count(1, maxq); hz::count(2, (uint64_t)events);
}
static const char *const class_names[] = {"<3 coroutines", ">=3 coroutines", ">=3 coroutines, >=2 queued at once"};
static const char *const counter_names[] = {"coroutines_readied_by_a_discarded_suspend_point", "sum_max_ready_queue_length", "step_events"};
} // namespace c05

namespace hz {
static const Info I = {
    "C05", 1, 130, 100000, false, true,
    "stateful byte-decoded programs (rapidcheck), single thread: 1..8 scripted coroutines with up to 6 steps each over {spawn+detach child, pause, resolve promise j with the suspend point discarded / co_awaited / kept and released later, "
    "await future j, mutex lock, unlock discarded / co_awaited, queue push, queue pop, start() of a child that runs nested (finishing at once, or suspending on a private future: control returns to the parent, the child continues from the queue), explicit nested activation, parking on a hand-written awaiter and coro_queue::resume() of a parked handle, synchronous steps of a generator, co_await on a thread pool whose only worker is occupied and thread_pool::stop() (which cancels, i.e. readies, the coroutines waiting in the pool's queue)}, driven by 1..4 operations from ordinary code (spawn, resolve, push - optionally performed by a destructor during stack unwinding) and then settled until every coroutine finished. Oracle = online comparison with a reference "
    "model of the ready queue (FIFO of batches; the order inside the batch readied by ONE operation is not asserted): a coroutine may only gain control when the model says the running one suspended/finished and it is in the front batch "
    "(run-to-suspension, FIFO, pause = strict round-robin), co_await on a suspend point transfers to one of its coroutines, queues the others and re-queues the awaiting one last, nobody runs between resolving and releasing a kept suspend point, "
    "and every return to ordinary code finds the model queue empty and coro_queue inactive (full drain); allocation balance 0. Non-trivial = >=3 coroutines and >=1 coroutine readied through a discarded suspend point; distinct = hash(decoded program).",
    c05::class_names, 3, c05::counter_names, 3};
const Info &info() { return I; }
void run_case(Reader &r) { c05::run(r); }
std::string describe(Reader &r) { return c05::describe(c05::decode(r)); }
}
