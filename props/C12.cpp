// C12 - scheduler: never early, in deadline order, cancel hits exactly its target
#include "scen_sched.h"
namespace hz {
static const Info I = {
    "C12", 1, 190, 200000, true, true,
    "first byte selects {manual-mode stateful history (1/2), running scheduler (1/2)}. History: up to 60 ops of sleep_until(now+{-10,0,0,10,20,-5}ms, id from a pool of 4) / cancel(id) / cancel(id,e) / "
    "remove(id) then resolve or drop / advance+drain get_expired / get_expired once, then destruction; after EVERY op every sleep future is compared with a reference model (multiset of pending (tp,id)): never early, "
    "earliest time point first, cancel true iff a pending sleep carries the id and completes exactly one such sleep with the given exception. Running scheduler: single-thread start(awaitable), thread mode or "
    "thread-pool mode on the virtual runtime with VIRTUAL TIME: 1..4 coroutine/blocking sleepers and cancellers with generated durations and ids, optional interval() generator (2 ticks consumed, or stopped through its stop token while sleeping), "
    "destruction with an optional 1h sleep pending; oracle: wake-up time == time point exactly, deadline order, cancel results, interval tick times, destruction takes zero virtual time and cancels pending sleeps, no deadlock. "
    "Non-trivial = (history) a cancel of a non-top entry, an equal-deadline pair or a cancel after expiry; (running) >=2 sleepers, a canceller or an interval; distinct = hash(decoded program, executed switch trace).",
    scen_sched::class_names, 4, scen_sched::counter_names, 6};
const Info &info() { return I; }
void run_case(Reader &r) { scen_sched::run(r); }
std::string describe(Reader &r) { return scen_sched::describe(r); }
}
