// C10 - bounded queue: back-pressure without losing or duplicating items
#include "scen_queue.h"
namespace hz {
static const Info I = {
    "C10", 1, 130, 60000, true, true,
    "first byte selects {stateful history (2/3), threads (1/3)}. History: limited_queue<int|Counted> with limit 1..4, up to 60 ops of push (future kept) / pop (future kept) / unblock_push(e) / "
    "detached coroutine consumer / probes, then destruction; after EVERY op every push future (ready iff fewer than limit items were waiting or a consumer was waiting; blocked pushes complete in arrival order, one per pop), "
    "every pop future, size() and empty() are compared with a reference model (queue <= limit, FIFO of blocked (item, push)). Threads: 1..3 producers x 1..3 consumers on the virtual runtime; oracle = multiset delivered == pushed, "
    "no duplicates, producer order, no deadlock. Non-trivial = (history) some push blocked, (threads) >=1 context switch; distinct = hash(decoded program, executed switch trace).",
    scen_queue::class_names, 6, scen_queue::counter_names, 4};
const Info &info() { return I; }
void run_case(Reader &r) { scen_queue::run(r, true); }
std::string describe(Reader &r) { return scen_queue::describe(r, true); }
}
