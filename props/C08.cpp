// C08 - coroutine mutex: FIFO hand-off, no lost request, try_lock
#include "scen_mutex.h"

namespace hz {
static const Info I = {
    "C08", 1, 69, 60000, true, true,
    "same generator as C07 (2..4 contenders, coroutine/thread flavour, 1..3 rounds of lock flavours x release styles, generated + swept schedules). "
    "Oracle over the recorded call history (logical clock ticks at call boundaries): interval-order FIFO (a request whose lock() had returned "
    "suspended before another request's call began is granted first), direct hand-off (no try_lock succeeds while a registered waiter waits "
    "through the whole call), every request granted (deadlock/livelock detector), final try_lock succeeds after all releases. "
    "Non-trivial = at least one request had to wait AND a context switch happened inside a library operation; distinct = hash of (decoded program, executed switch trace).",
    scen_mutex::class_names, 6, scen_mutex::counter_names, 6};
const Info &info() { return I; }
void run_case(Reader &r) { scen_mutex::run(r, scen_mutex::O_FIFO); }
std::string describe(Reader &r) { return scen_mutex::describe(scen_mutex::decode(r)); }
}
