// scen_mutex.h - coroutine mutex scenario shared by C07 (mutual exclusion, exactly-once
// grant), C08 (FIFO hand-off, no lost request, try_lock) and C03 (TSan variant).
#pragma once
#include "common.h"

namespace scen_mutex {

enum Oracle : unsigned { O_EXCLUSION = 1, O_FIFO = 2 };

struct Round { uint8_t acq, cs_yields, rel, pre_yields; };
struct Contender { uint8_t flavour; std::vector<Round> rounds; bool par = false; };   // flavour 2 (trailing byte): callback contender - its single round runs inside the resume function of an awaiter it registered, i.e. nested inside the previous owner's release
// par: 'release on helper thread' rounds use parallel_resume(own.release()) instead   // flavour 0 coroutine, 1 thread
struct Prog { std::vector<Contender> c; bool adapter = false; };   // adapter: every contender keeps its ownership in ONE shared object (BasicLockable adapter pattern: lock() stores into a member, unlock() releases it)

inline Prog decode(hz::Reader &r) {
    Prog p;
    unsigned n = 2 + r.mod(3);
    for (unsigned i = 0; i < n; i++) {
        Contender c;
        c.flavour = (uint8_t)r.mod(2);
        unsigned rounds = 1 + r.mod(3);
        for (unsigned k = 0; k < rounds; k++) {
            Round x;
            x.acq = (uint8_t)r.mod(3);
            x.cs_yields = (uint8_t)r.mod(3);
            x.rel = (uint8_t)r.mod(4);
            x.pre_yields = (uint8_t)r.mod(3);
            c.rounds.push_back(x);
        }
        p.c.push_back(std::move(c));
    }
    // trailing bytes (older replay files keep their meaning)
    for (auto &c : p.c) c.par = r.mod(4) == 3;
    p.adapter = r.mod(3) == 1;
    for (auto &c : p.c) if (r.mod(4) == 2) { c.flavour = 2; c.rounds.resize(1); if (c.rounds[0].acq == 2) c.rounds[0].acq = 0; }
    return p;
}

inline std::string describe(const Prog &p) {
    static const char *acq_c[] = {"co_await lock()", "co_await lock()", "try_lock()"};
    static const char *acq_t[] = {"lock().wait()", "lock()+subscribe(sync_awaiter)", "try_lock()"};
    static const char *rel_c[] = {"release() discarded", "ownership destroyed", "co_await release()", "release on helper thread"};
    static const char *rel_t[] = {"release() discarded", "ownership destroyed", "release() kept, cleared later", "release on helper thread"};
    hz::Desc d;
    d << (unsigned)p.c.size() << " contenders" << (p.adapter ? " keeping their ownership in one shared object (lock/unlock adapter)" : "") << ";";
    for (size_t i = 0; i < p.c.size(); i++) {
        d << " C" << (unsigned)i << (p.c[i].flavour == 2 ? "(callback awaiter: critical section and release run inside the previous owner's release):" : p.c[i].flavour ? "(thread):" : "(coroutine):");
        for (auto &x : p.c[i].rounds)
            d << " [yield*" << (unsigned)x.pre_yields << ", " << (p.c[i].flavour ? acq_t[x.acq] : acq_c[x.acq]) << ", CS yield*"
              << (unsigned)x.cs_yields << ", " << (x.rel == 3 && p.c[i].par ? "parallel_resume(release())" : p.c[i].flavour ? rel_t[x.rel] : rel_c[x.rel]) << "]";
        d << ";";
    }
    return d.s;
}

struct Req {
    int contender = -1, round = -1;
    int t_begin = 0, t_susp = 0, t_grant = 0, t_end = 0;
    bool is_try = false, try_ok = false, suspended = false;
};

struct Ctx {
    cocls::mutex mx;
    const Prog *prog = nullptr;
    unsigned oracle = 0;
    int holder = -1;                 // protected by mx (if mx works)
    cocls::mutex::ownership guard;   // adapter mode: the ownership of whoever holds the mutex (protected by mx)
    std::vector<std::vector<Req>> reqs;
    unsigned long cs_entries = 0;    // protected by mx
};

struct CoState { bool running = true; };

// scripted wrapper around the library's lock awaiter: observes the call boundaries
struct LockAw {
    cocls::co_awaiter<cocls::mutex> inner;
    Req *rq; CoState *cs;
    bool await_ready() { rq->t_begin = hz::tick(); cs->running = false; return inner.await_ready(); }
    bool await_suspend(std::coroutine_handle<> h) {
        Req *q = rq;                 // the frame may be resumed elsewhere (and die) once published
        cs->running = false;
        bool r = inner.await_suspend(h);
        if (r) { q->suspended = true; q->t_susp = hz::tick(); }
        return r;
    }
    cocls::mutex::ownership await_resume() {
        HZ_CHECK(!cs->running, "C%d round %d: coroutine resumed while it is already running (double resumption of one lock request)", rq->contender, rq->round);
        cs->running = true;
        return inner.await_resume();
    }
};

inline void cs_body(Ctx &ctx, Req &rq, int id, unsigned yields) {
    rq.t_grant = hz::tick();
    if (ctx.oracle & O_EXCLUSION)
        HZ_CHECK(ctx.holder == -1, "mutual exclusion violated: C%d entered the critical section while C%d owns the mutex", id, ctx.holder);
    ctx.holder = id;
    ctx.cs_entries++;
    for (unsigned y = 0; y < yields; y++) {
        hz::upoint();
        if (ctx.oracle & O_EXCLUSION)
            HZ_CHECK(ctx.holder == id, "mutual exclusion violated: C%d found C%d inside its critical section", id, ctx.holder);
    }
    if (ctx.oracle & O_EXCLUSION)
        HZ_CHECK(ctx.holder == id, "mutual exclusion violated: C%d found C%d inside its critical section", id, ctx.holder);
    ctx.holder = -1;
}

inline void helper_release(cocls::mutex::ownership own) {
    std::thread h([o = std::move(own)]() mutable { hz::upoint(); o.release(); });
    h.join();
}

inline cocls::async<void> contender_coro(Ctx &ctx, int id) {
    CoState cs;
    const Contender &c = ctx.prog->c[id];
    for (size_t k = 0; k < c.rounds.size(); k++) {
        const Round &x = c.rounds[k];
        Req &rq = ctx.reqs[id][k];
        hz::upoints(x.pre_yields);
        cocls::mutex::ownership local;
        cocls::mutex::ownership &own = ctx.prog->adapter ? ctx.guard : local;
        if (x.acq == 2) {
            rq.is_try = true;
            rq.t_begin = hz::tick();
            cocls::mutex::ownership got = ctx.mx.try_lock();
            rq.t_susp = hz::tick();
            rq.try_ok = (bool)got;
            if (!got) { rq.t_end = hz::tick(); continue; }
            own = std::move(got);
        } else {
            LockAw aw{ctx.mx.lock(), &rq, &cs};
            cocls::mutex::ownership got = co_await aw;
            HZ_CHECK((bool)got, "co_await lock() returned an empty ownership");
            own = std::move(got);
        }
        cs_body(ctx, rq, id, x.cs_yields);
        switch (x.rel) {
            case 0: own.release(); break;
            case 1:
                if (k & 1) {
                    // overwritten by move assignment from a NAMED (empty) ownership: the mutex is released at the assignment, the source stays empty
                    cocls::mutex::ownership named;
                    own = std::move(named);
                    HZ_CHECK(!named, "after 'own = std::move(named)' the source holds a mutex (the overwritten ownership was parked in it instead of being released)");
                    // (in adapter mode the shared object belongs to the next owner as soon as the mutex is released: not read)
                    if (!ctx.prog->adapter) HZ_CHECK(!own, "after assigning an empty ownership the target still owns the mutex");
                }
                else own = cocls::mutex::ownership();
                break;
            case 2: { auto sp = own.release(); cs.running = false; co_await sp; cs.running = true; } break;
            default: if (c.par) cocls::parallel_resume(own.release()); else helper_release(std::move(own)); break;
        }
        rq.t_end = hz::tick();
    }
    co_return;
}

inline void contender_thread(Ctx &ctx, int id) {
    const Contender &c = ctx.prog->c[id];
    for (size_t k = 0; k < c.rounds.size(); k++) {
        const Round &x = c.rounds[k];
        Req &rq = ctx.reqs[id][k];
        hz::upoints(x.pre_yields);
        cocls::mutex::ownership local;
        cocls::mutex::ownership &own = ctx.prog->adapter ? ctx.guard : local;
        if (x.acq == 2) {
            rq.is_try = true;
            rq.t_begin = hz::tick();
            cocls::mutex::ownership got = ctx.mx.try_lock();
            rq.t_susp = hz::tick();
            rq.try_ok = (bool)got;
            if (!got) { rq.t_end = hz::tick(); continue; }
            own = std::move(got);
        } else if (x.acq == 0) {
            rq.t_begin = hz::tick();
            own = ctx.mx.lock().wait();
        } else {
            // documented custom-awaiter path: subscribe a sync awaiter by hand, which makes
            // the moment of registration observable
            rq.t_begin = hz::tick();
            auto aw = ctx.mx.lock();
            if (!aw.await_ready()) {
                cocls::sync_awaiter s;
                if (aw.subscribe(&s)) {
                    rq.suspended = true; rq.t_susp = hz::tick();
                    s.wait_sync();
                }
            }
            own = aw.await_resume();
        }
        HZ_CHECK((bool)own, "lock() returned an empty ownership");
        cs_body(ctx, rq, id, x.cs_yields);
        switch (x.rel) {
            case 0: own.release(); break;
            case 1:
                if (k & 1) {
                    // overwritten by move assignment from a NAMED (empty) ownership: the mutex is released at the assignment, the source stays empty
                    cocls::mutex::ownership named;
                    own = std::move(named);
                    HZ_CHECK(!named, "after 'own = std::move(named)' the source holds a mutex (the overwritten ownership was parked in it instead of being released)");
                    // (in adapter mode the shared object belongs to the next owner as soon as the mutex is released: not read)
                    if (!ctx.prog->adapter) HZ_CHECK(!own, "after assigning an empty ownership the target still owns the mutex");
                }
                else own = cocls::mutex::ownership();
                break;
            case 2: { auto sp = own.release(); hz::upoint(); sp.clear(); } break;
            default: if (c.par) cocls::parallel_resume(own.release()); else helper_release(std::move(own)); break;
        }
        rq.t_end = hz::tick();
    }
}

// callback contender: registers a hand-written awaiter; when the mutex is handed over its resume function runs the
// critical section and the release - on whatever thread released the mutex, nested inside that release
struct CbContender : cocls::awaiter {
    Ctx *ctx; int id; cocls::co_awaiter<cocls::mutex> aw; std::atomic<int> done{0};
    CbContender(Ctx &c, int id_) : ctx(&c), id(id_), aw(c.mx.lock()) { set_resume_fn(&fn); }
    void body() {
        const Round &x = ctx->prog->c[(size_t)id].rounds[0];
        Req &rq = ctx->reqs[(size_t)id][0];
        cocls::mutex::ownership local;
        cocls::mutex::ownership &own = ctx->prog->adapter ? ctx->guard : local;
        own = aw.await_resume();
        HZ_CHECK((bool)own, "lock() handed an empty ownership to a callback awaiter");
        cs_body(*ctx, rq, id, x.cs_yields);
        switch (x.rel) {
            case 1: own = cocls::mutex::ownership(); break;
            case 2: { auto sp = own.release(); hz::upoint(); sp.clear(); } break;
            default: own.release(); break;
        }
        rq.t_end = hz::tick();
        done.store(1, std::memory_order_release);
    }
    static cocls::suspend_point<void> fn(cocls::awaiter *me, void *) noexcept { static_cast<CbContender *>(me)->body(); return {}; }
};
inline void contender_callback(Ctx &ctx, int id) {
    const Round &x = ctx.prog->c[(size_t)id].rounds[0];
    Req &rq = ctx.reqs[(size_t)id][0];
    hz::upoints(x.pre_yields);
    CbContender cb(ctx, id);
    rq.t_begin = hz::tick();
    if (cb.aw.await_ready() || !cb.aw.subscribe(&cb)) { cb.body(); return; }      // free, or acquired while registering: owner at once
    rq.suspended = true; rq.t_susp = hz::tick();
    while (!cb.done.load(std::memory_order_acquire)) vrt::yield();
}

// returns number of requests that had to wait
inline void run(hz::Reader &r, unsigned oracle) {
    Prog p = decode(r);
    unsigned waited = 0, tries = 0, grants = 0, expected = 0;
    {
        Ctx ctx;
        ctx.prog = &p; ctx.oracle = oracle;
        ctx.reqs.resize(p.c.size());
        for (size_t i = 0; i < p.c.size(); i++) {
            ctx.reqs[i].resize(p.c[i].rounds.size());
            for (size_t k = 0; k < p.c[i].rounds.size(); k++) { ctx.reqs[i][k].contender = (int)i; ctx.reqs[i][k].round = (int)k; }
        }
        std::vector<std::thread> th;
        for (size_t i = 0; i < p.c.size(); i++) {
            if (p.c[i].flavour == 2)
                th.emplace_back([&ctx, i] { contender_callback(ctx, (int)i); });
            else if (p.c[i].flavour == 0)
                th.emplace_back([&ctx, i] { cocls::future<void> f = contender_coro(ctx, (int)i).start(); f.wait(); });
            else
                th.emplace_back([&ctx, i] { contender_thread(ctx, (int)i); });
        }
        for (auto &t : th) t.join();
        // a detached thread created by parallel_resume() may still be in the tail of an await_suspend whose coroutine has
        // long continued elsewhere: let every thread finish before the records are read
        vrt::finish_main();

        // ---- end-of-case oracle ----
        std::vector<const Req *> all;
        for (auto &v : ctx.reqs) for (auto &q : v) all.push_back(&q);
        for (const Req *q : all) {
            if (q->is_try) { tries++; if (q->try_ok) { grants++; expected++; } }
            else { expected++; if (q->t_grant) grants++; if (q->suspended) waited++; }
            HZ_CHECK(q->t_end != 0, "C%d round %d never completed", q->contender, q->round);
        }
        HZ_CHECK(grants == expected, "%u lock requests but %u grants", expected, grants);
        HZ_CHECK(ctx.cs_entries == expected, "%u lock requests but %lu critical sections executed", expected, ctx.cs_entries);
        if (oracle & O_FIFO) {
            // interval-order FIFO: A registered (its lock() had returned suspended) before B's
            // call began  =>  A is granted before B
            for (const Req *a : all) {
                if (!a->suspended || !a->t_susp || a->is_try) continue;
                for (const Req *b : all) {
                    if (a == b || b->is_try || !b->t_begin) continue;
                    if (a->t_susp < b->t_begin)
                        HZ_CHECK(a->t_grant < b->t_grant,
                                 "FIFO violated: C%d round %d was waiting (t=%d) before C%d round %d asked (t=%d) but was granted later (%d > %d)",
                                 a->contender, a->round, a->t_susp, b->contender, b->round, b->t_begin, a->t_grant, b->t_grant);
                }
            }
            // direct hand-off: no try_lock succeeds while a registered waiter waits through
            // the whole call
            for (const Req *t : all) {
                if (!t->is_try || !t->try_ok) continue;
                for (const Req *w : all) {
                    if (w->is_try || !w->suspended) continue;
                    HZ_CHECK(!(w->t_susp < t->t_begin && w->t_grant > t->t_susp),
                             "try_lock of C%d round %d succeeded (t=%d..%d) while C%d round %d was waiting (since t=%d, granted t=%d)",
                             t->contender, t->round, t->t_begin, t->t_susp, w->contender, w->round, w->t_susp, w->t_grant);
                }
            }
            // a mutex whose every ownership has been released can be locked again
            auto own = ctx.mx.try_lock();
            HZ_CHECK((bool)own, "try_lock failed although every ownership has been released");
            own.release();
            auto own2 = ctx.mx.try_lock();
            HZ_CHECK((bool)own2, "second try_lock failed after release");
        }
    }
    const vrt::Stats &st = vrt::stats();
    unsigned w = waited > 2 ? 2 : waited;
    hz::set_class(w * 2 + (st.preempt_in_lib ? 1 : 0));
    hz::set_nontrivial(waited >= 1 && st.preempt_in_lib > 0);
    hz::count(0, waited); hz::count(1, tries); hz::count(2, grants);
    unsigned par = 0; for (auto &c : p.c) if (c.par) for (auto &x : c.rounds) if (x.rel == 3) par++;
    hz::count(3, par);
    hz::count(4, p.adapter ? 1 : 0);
    unsigned cbs = 0; for (auto &c : p.c) if (c.flavour == 2) cbs++;
    hz::count(5, cbs);
}

static const char *const class_names[] = {
    "no-waiter/no-preemption", "no-waiter/preempted-in-library", "1-waiter/no-preemption", "1-waiter/preempted-in-library",
    "2+waiters/no-preemption", "2+waiters/preempted-in-library"};
static const char *const counter_names[] = {"requests_that_waited", "try_lock_calls", "grants", "releases_through_parallel_resume", "cases_with_shared_ownership_object", "callback_contenders"};

} // namespace scen_mutex
