// C13 - generator: consumer sees exactly the yielded sequence, in every access style
#include "scen_gen.h"
namespace hz {
static const Info I = {
    "C13", 1, 40, 100000, true, true,
    "rapidcheck generates (program, schedule): generator kind {generator<int>, generator<Counted>, generator<int,int> echoing its argument}, a body script of up to 8 steps over {yield, await ready awaitable, "
    "await pending awaitable completed by another thread, await pending awaitable completed by the consumer, throw, return} with a guard local, a cycle of 1..6 consumer access styles {next()+value(), iterator ++/*, range-for, "
    "g()+sync, co_await next(), co_await g(), g()+complete-the-awaited-operation+read} and optional destruction while parked at a yield. Domain restrictions: blocking styles only when the next body segment awaits nothing pending; "
    "consumer-completed awaitables only through g(). Oracle: consumed sequence == yielded sequence (prefix on early destruction), exactly one end indication, exception at exactly its position, argument echo 100*k+arg_k, "
    "guard constructed/destroyed once, instance counts and allocation balance 0. Non-trivial = >=2 styles mixed, asynchronous body, exception, argument generator or early destruction; distinct = hash(decoded program, executed switch trace).",
    scen_gen::class_names, 8, scen_gen::counter_names, 2};
const Info &info() { return I; }
void run_case(Reader &r) { scen_gen::run(r); }
std::string describe(Reader &r) { return scen_gen::describe(scen_gen::decode(r)); }
}
