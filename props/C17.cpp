// C17 - shared_future: one result for all copies; state lives exactly as long as needed
#include "scen_shared.h"
namespace hz {
static const Info I = {
    "C17", 1, 16, 100000, true, true,
    "rapidcheck generates (program, schedule, faults): shared_future<int|Counted> constructed {from a promise-function keeping the promise, from a promise-function resolving inside, from a future-returning function (pending / ready), "
    "default-constructed then get_promise()}; a resolver thread (value / exception / drop after generated yields) against 1..3 worker threads each holding its own copy and doing {wait(), co_await with the awaiter keeping its own copy, "
    "drop the handle while pending, poll ready() then value(), copy + drop original + wait()}; the owner keeps or drops its handle before joining. Oracle: every awaiter and copy observes the same single result, each released exactly once; "
    "the stored instance-counted value is alive exactly while needed (1 while a handle exists after a value resolution, 0 after the last handle died), constructed == destroyed, allocation balance 0, ASan (use-after-free of the shared state), deadlock detector. "
    "Non-trivial = >=1 context switch and a pending construction or >=2 workers; distinct = hash(decoded program, executed switch trace).",
    scen_shared::class_names, 8, scen_shared::counter_names, 1};
const Info &info() { return I; }
void run_case(Reader &r) { scen_shared::run(r); }
std::string describe(Reader &r) { return scen_shared::describe(scen_shared::decode(r)); }
}
