// scen_storage.h - coroutine storage policies: C19 (a) sequential histories per policy,
// (b) two threads on one reusable_storage_mtsafe; reused by C03.
#pragma once
#include "common.h"
#include "values.h"

namespace scen_storage {

// tracking wrapper: records [ptr, ptr+size) of every frame handed out and released
template<class P>
struct tracked : P {
    using P::P;
    using P::operator=;
    void *alloc(std::size_t sz) {
        void *p = P::alloc(sz);
        hz::slot_add(32, 1); hz::slot_set(37, (long)sz);
        if (sz > (std::size_t)hz::slot_get(34)) hz::slot_set(34, (long)sz);
        int r = hz::range_add(p, sz);
        if (r == 0) hz::fail("storage policy handed out memory [%p,+%zu) that overlaps a frame which is still alive", p, sz);
        return p;
    }
    static void dealloc(void *p, std::size_t sz) {
        hz::slot_add(33, 1);
        int r = hz::range_del(p, sz);
        if (r == 0) hz::fail("dealloc of a frame %p that the policy never handed out (or released twice)", p);
        if (r == 2) hz::fail("dealloc of frame %p with a different size than it was allocated with", p);
        P::dealloc(p, sz);
    }
};

struct Gate { std::unique_ptr<cocls::future<void>> f; cocls::promise<void> p; };
struct Frame { Gate gate; std::unique_ptr<cocls::future<int>> result; int size_class; bool live; int extra_idx = -1; };

// family of coroutines with different frame sizes; canary locals checked at completion
template<class Alloc, int PAD>
cocls::with_allocator<Alloc, cocls::async<int>> sized_coro(Alloc &, cocls::future<void> *gate, int id) {
    unsigned char pad[PAD];
    for (int i = 0; i < PAD; i++) pad[i] = (unsigned char)(id * 31 + i);
    co_await *gate;
    int bad = 0;
    for (int i = 0; i < PAD; i++) if (pad[i] != (unsigned char)(id * 31 + i)) bad++;
    co_return bad ? -1 : id;
}
template<class Alloc>
cocls::future<int> create(Alloc &a, int size_class, cocls::future<void> *gate, int id) {
    // six frame sizes, the first four close together (a policy that grows its block must cope with several
    // slightly larger requests in a row, not only with jumps by a large factor)
    switch (size_class) {
        case 0: return sized_coro<Alloc, 8>(a, gate, id).start();
        case 1: return sized_coro<Alloc, 40>(a, gate, id).start();
        case 2: return sized_coro<Alloc, 72>(a, gate, id).start();
        case 3: return sized_coro<Alloc, 104>(a, gate, id).start();
        case 4: return sized_coro<Alloc, 300>(a, gate, id).start();
        default: return sized_coro<Alloc, 1500>(a, gate, id).start();
    }
}

constexpr int NSC = 6;      // number of frame size classes (ascending frame size)
enum { P_DEFAULT, P_REUSABLE, P_REUSABLE_MT, P_STACK, P_PLACEMENT, P_REUSABLE_BUFFER, P_EXTRA, P_COUNT, P_MT_THREADS = P_COUNT };
// sub-variants of P_EXTRA (taken from the first op byte): type of the attached object x base policy
enum { X_INT_DEFAULT, X_ALIGN16_DEFAULT, X_INT_MT, X_ALIGN16_MT, X_COUNT };
struct Op { uint8_t code, a; };
struct SeqProg { uint8_t policy; std::vector<Op> ops; };
inline SeqProg decode_seq(hz::Reader &r) {
    SeqProg p; p.policy = (uint8_t)r.mod(P_COUNT); unsigned n = 0;
    while (r.more() && n < 40) { Op o; o.code = (uint8_t)r.mod(4); o.a = r.u8(); p.ops.push_back(o); n++; }
    return p;
}
static const char *pn[] = {"default_storage", "reusable_storage", "reusable_storage_mtsafe", "stack_storage(alloca + heap fallback)", "placement_alloc", "reusable_buffer_storage<vector<char | 24-byte record>>", "promise_extra_storage<Extra, Base>"};
inline std::string describe_seq(const SeqProg &p) {
    static const char *xn[] = {"[Extra = 16-byte struct aligned to 4, Base = default_storage]", "[Extra aligned to 16, Base = default_storage]", "[Extra aligned to 4, Base = reusable_storage_mtsafe]", "[Extra aligned to 16, Base = reusable_storage_mtsafe]"};
    hz::Desc d; d << pn[p.policy]; if (p.policy == P_EXTRA) d << xn[p.ops.empty() ? 0 : p.ops[0].a / 3 % X_COUNT]; d << ", " << (unsigned)p.ops.size() << " ops:";
    for (auto &o : p.ops) {
        if (o.code == 2) { d << " complete(#" << (unsigned)o.a << ")"; continue; }
        if (p.policy == P_EXTRA && o.code == 3 && (o.a & 0x40)) { d << " create(size class " << (unsigned)(o.a % NSC) << ") whose attached-object factory throws"; continue; }
        if (p.policy != P_STACK && p.policy != P_EXTRA && o.code == 3 && (o.a & 4)) d << ((o.a & 16) ? " [movable policy with no live frame: another storage is move-constructed from it and destroyed, the moved-from object stays in use; otherwise:]" : " [movable policy with no live frame: move the storage object away and back; otherwise:]");
        d << " create(size class " << (unsigned)(o.a % NSC) << ")";
        if (p.policy == P_STACK && (o.a & 8)) d << "+create(size class " << (unsigned)((o.a >> 4) % NSC) << " in the same storage object)";
    }
    d << "; complete the rest";
    return d.s;
}

template<int AL>
struct alignas(AL) ExtraT {
    int tag; int pad[3] = {0, 0, 0};
    explicit ExtraT(int t) : tag(t) { hz::slot_add(35, 1); hz::slot_add(36, 1); }
    ExtraT(ExtraT &&o) noexcept : tag(o.tag) { hz::slot_add(36, 1); }
    ExtraT(const ExtraT &o) : tag(o.tag) { hz::slot_add(36, 1); }
    ~ExtraT() { hz::slot_add(36, -1); }
};
using Extra = ExtraT<4>;
using Extra16 = ExtraT<16>;          // alignment of long double / SSE vectors: not more than operator new guarantees

struct FactoryFailed { int tag; };
struct SeqStats { unsigned creates = 0, reuse_hits = 0, fallbacks = 0, max_live = 0, factory_throws = 0; };

struct SeqRun {
    std::vector<std::unique_ptr<Frame>> frames;
    SeqStats st;
    int next_id = 1;
    Frame *block_owner = nullptr;      // model of reusable_storage_mtsafe: which live frame holds the block
    unsigned live() { unsigned n = 0; for (auto &f : frames) if (f->live) n++; return n; }

    Frame &new_frame(int sc) {
        frames.emplace_back(new Frame()); Frame &f = *frames.back();
        f.gate.f.reset(new cocls::future<void>()); f.gate.p = f.gate.f->get_promise(); f.size_class = sc; f.live = true;
        return f;
    }
    void complete(Frame &f) {
        if (!f.live) return;
        long rel0 = hz::slot_get(33);
        f.gate.p();
        HZ_CHECK(f.result->ready(), "coroutine did not finish after its gate was opened");
        int v = f.result->value();
        HZ_CHECK(v >= 0, "canary locals of a coroutine frame were overwritten while the frame was alive (frame memory not exclusive)");
        HZ_CHECK(hz::slot_get(33) == rel0 + 1, "completing one coroutine released %ld frames", hz::slot_get(33) - rel0);
        f.live = false;
        if (&f == block_owner) block_owner = nullptr;
    }
    // generic body for policies that are one object serving many frames
    template<class A>
    void history(A &alloc, const SeqProg &p, bool single_use, bool reusing, bool mtsafe, const std::function<void()> &after_create = {}) {
        long max_size_seen = 0;
        for (auto &o : p.ops) {
            if (o.code == 2) { if (!frames.empty()) complete(*frames[o.a % frames.size()]); continue; }
            if constexpr (std::is_move_constructible_v<A> && std::is_move_assignable_v<A>) {
                // moving the storage object (documented movable) while no frame lives in it keeps its block: no new allocation later
                if (o.code == 3 && (o.a & 4) && live() == 0) {
                    if (o.a & 16) {
                        // another storage object is move-constructed from this one and dies with the block; the moved-from
                        // object stays in use as an empty storage: it has to warm up again
                        { A taken(std::move(alloc)); }
                        for (bool &x : size_seen) x = false;
                        continue;
                    }
                    A tmp(std::move(alloc)); alloc = std::move(tmp); continue;
                }
            }
            int sc = o.a % NSC;
            if (single_use && live() > 0) { complete(*frames.back()); }      // documented single use: one live frame at a time
            bool block_busy = mtsafe && block_owner != nullptr;
            Frame &f = new_frame(sc);
            if (mtsafe && !block_busy) block_owner = &f;
            long before_max = hz::slot_get(34);
            hz::measure_begin();
            f.result.reset(new cocls::future<int>(create(alloc, sc, f.gate.f.get(), next_id++)));
            unsigned long news = hz::measure_end();
            news -= 1;       // the harness's own `new future<int>` above
            long this_size = hz::slot_get(34) >= before_max ? hz::slot_get(34) : before_max;
            (void)this_size;
            st.creates++;
            if (after_create) after_create();
            if (live() > st.max_live) st.max_live = live();
            if (reusing) {
                // equally sized (or smaller) frames after warm-up: no heap allocation
                bool warmed = size_seen[sc] || larger_seen(sc);
                if (mtsafe && block_busy) { HZ_CHECK(news == 1, "thread-safe reusable storage with its block busy: %lu heap allocations for the fallback frame (1 expected)", news); st.fallbacks++; }
                else if (warmed) { HZ_CHECK(news == 0, "reusing policy allocated %lu times for a frame size it had already served (no allocation expected after warm-up)", news); st.reuse_hits++; }
                if (!(mtsafe && block_busy)) size_seen[sc] = true;
            }
            (void)max_size_seen;
        }
        for (auto &f : frames) complete(*f);
    }
    bool size_seen[NSC] = {};
    bool larger_seen(int sc) { for (int k = sc + 1; k < NSC; k++) if (size_seen[k]) return true; return false; }

    // stack_storage: memory comes from alloca in the caller's frame, so the coroutine lives inside one call
    // one storage object serves the coroutines of this call one after another (a single live frame at a time)
    // model of the shared state: the size class of the LAST heap fallback (the library stores that frame's size, not a maximum)
    void stack_once(std::size_t &state, int sc, int sc2, int &learned) {
        const int block_sc = learned;
        tracked<cocls::stack_storage> storage(state);
        storage = alloca(storage);
        for (int round = 0; round < (sc2 >= 0 ? 2 : 1); round++) {
            int c = round ? sc2 : sc;
            // the block on the stack was sized from the shared state at entry: a frame fits iff its size class had been learned by then
            bool fits = c <= block_sc;
            if (!fits) learned = c;
            Frame &f = new_frame(c);
            hz::measure_begin();
            f.result.reset(new cocls::future<int>(create(storage, c, f.gate.f.get(), next_id++)));
            unsigned long news = hz::measure_end() - 1;
            st.creates++;
            if (fits) { HZ_CHECK(news == 0, "stack storage used the heap (%lu allocations) for a frame size its shared state had already learned", news); st.reuse_hits++; }
            else { HZ_CHECK(news >= 1, "a frame larger than the block on the stack was not given heap memory (it was placed into the too small block)"); st.fallbacks++; }
            complete(f);
        }
    }
    // storage with an attached extra object: one storage object per coroutine, the extra object is reachable through it
    // as soon as the coroutine object exists; E's alignment and the base policy vary (a base policy that looks at the
    // size it is given back must get the size it handed out)
    template<class E, class Base>
    void extra_history(const SeqProg &p) {
        using XS = tracked<cocls::promise_extra_storage<E, Base>>;
        std::vector<std::unique_ptr<XS>> stor;
        for (auto &o : p.ops) {
            if (o.code == 2) { if (!frames.empty()) { Frame &f = *frames[o.a % frames.size()]; bool was = f.live; long alive = hz::slot_get(36); complete(f); if (was) HZ_CHECK(hz::slot_get(36) == alive - 1, "the attached extra object was not destroyed together with its frame"); } continue; }
            int sc = o.a % NSC; int tag = 500 + next_id;
            long built = hz::slot_get(35);
            if (o.code == 3 && (o.a & 0x40)) {
                // the factory of the attached object throws: the exception reaches the caller, no coroutine exists, no attached
                // object was constructed or destroyed, and the memory obtained for the frame went back where it came from
                stor.emplace_back(new XS([tag]() -> E { throw FactoryFailed{tag}; }));
                cocls::future<void> gate; long alive = hz::slot_get(36); long bal = hz::alloc_balance(); int got = 0;
                try { cocls::future<int> r = create(*stor.back(), sc, &gate, next_id++); (void)r; }
                catch (const FactoryFailed &e) { got = e.tag; }
                HZ_CHECK(got == tag, "the exception thrown by the factory of the attached object did not reach the caller of the coroutine");
                HZ_CHECK(hz::slot_get(35) == built && hz::slot_get(36) == alive, "factory of the attached object threw: %ld attached objects constructed, live count changed by %ld (nothing was constructed, nothing may be destroyed)", hz::slot_get(35) - built, hz::slot_get(36) - alive);
                if constexpr (std::is_same_v<Base, cocls::default_storage>)
                    HZ_CHECK(hz::alloc_balance() == bal, "factory of the attached object threw: %ld heap blocks obtained for the frame that was never created were not released", hz::alloc_balance() - bal);
                st.factory_throws++;
                continue;
            }
            stor.emplace_back(new XS([tag] { return E(tag); }));
            Frame &f = new_frame(sc);
            f.result.reset(new cocls::future<int>(create(*stor.back(), sc, f.gate.f.get(), next_id++)));
            st.creates++;
            HZ_CHECK(hz::slot_get(35) == built + 1, "the attached extra object was constructed %ld times for one coroutine", hz::slot_get(35) - built);
            E *e = &**stor.back();
            HZ_CHECK(reinterpret_cast<std::uintptr_t>(e) % alignof(E) == 0, "the attached extra object lives at %p, which is not aligned to the %zu bytes its type requires", (void *)e, alignof(E));
            HZ_CHECK(e->tag == tag && (*stor.back())->tag == tag, "the attached extra object is not usable right after the coroutine was created");
            if (live() > st.max_live) st.max_live = live();
        }
        for (auto &f : frames) complete(*f);
        HZ_CHECK(hz::slot_get(36) == 0, "%ld attached extra objects still alive after every frame was released", hz::slot_get(36));
        stor.clear();      // the storages' own blocks are released here, exactly once (ASan: double free / use after free otherwise)
    }
    struct Rec24 { long a, b, c; };
    template<class E>
    void buffer_history(const SeqProg &p) {
        std::vector<E> buf; tracked<cocls::reusable_buffer_storage<std::vector<E>>> a(buf);
        history(a, p, true, true, false, [&buf] {
            std::size_t need = (std::size_t)hz::slot_get(37);
            HZ_CHECK(buf.size() * sizeof(E) >= need, "the reusable buffer holds %zu elements of %zu bytes = %zu bytes, the frame it hosts needs %zu bytes", buf.size(), sizeof(E), buf.size() * sizeof(E), need);
        });
    }
    void run(const SeqProg &p) {
        switch (p.policy) {
            case P_DEFAULT: { tracked<cocls::default_storage> a; history(a, p, false, false, false); } break;
            case P_REUSABLE: { tracked<cocls::reusable_storage> a; history(a, p, true, true, false); } break;
            case P_REUSABLE_MT: { tracked<cocls::reusable_storage_mtsafe> a; history(a, p, false, true, true); } break;
            case P_STACK: {
                std::size_t state = 0; int learned = -1;
                for (auto &o : p.ops) {
                    if (o.code == 2) continue;
                    int sc = o.a % NSC, sc2 = (o.a & 8) ? (o.a >> 4) % NSC : -1;
                    stack_once(state, sc, sc2, learned);
                }
            } break;
            case P_PLACEMENT: {
                std::vector<char> buf(8192); tracked<cocls::placement_alloc> a(buf.data());
                history(a, p, true, false, false);
                for (auto &f : frames) (void)f;
            } break;
            case P_REUSABLE_BUFFER:
                // the user's container: bytes, or 24-byte records (an element size that does not divide the frame sizes)
                if (!p.ops.empty() && (p.ops[0].a & 64)) buffer_history<Rec24>(p); else buffer_history<char>(p);
                break;
            default:
                switch (p.ops.empty() ? 0 : p.ops[0].a / 3 % X_COUNT) {
                    case X_INT_DEFAULT: extra_history<Extra, cocls::default_storage>(p); break;
                    case X_ALIGN16_DEFAULT: extra_history<Extra16, cocls::default_storage>(p); break;
                    case X_INT_MT: extra_history<Extra, cocls::reusable_storage_mtsafe>(p); break;
                    default: extra_history<Extra16, cocls::reusable_storage_mtsafe>(p); break;
                }
                break;
        }
        HZ_CHECK(hz::slot_get(32) == hz::slot_get(33), "%ld frames handed out, %ld released", hz::slot_get(32), hz::slot_get(33));
        HZ_CHECK(hz::range_count() == 0, "%d frames still registered as alive at the end", hz::range_count());
    }
};

inline void run_seq(const SeqProg &p) {
    SeqStats st;
    { SeqRun R; R.run(p); st = R.st; }
    hz::set_class(p.policy);
    hz::set_nontrivial(st.creates >= 2);
    hz::count(0, st.creates); hz::count(1, st.reuse_hits); hz::count(2, st.fallbacks); hz::count(3, st.factory_throws);
}

// ---------------------------------------------------------------- (b) two threads, one mt-safe storage
struct MtProg { uint8_t rounds[2]; uint8_t sc[2]; uint8_t yields[2]; };
inline MtProg decode_mt(hz::Reader &r) { MtProg p; for (int i = 0; i < 2; i++) { p.rounds[i] = (uint8_t)(1 + r.mod(3)); { static const uint8_t m[3] = {0, 4, 5}; p.sc[i] = m[r.mod(3)]; } p.yields[i] = (uint8_t)r.mod(3); } return p; }
inline std::string describe_mt(const MtProg &p) {
    hz::Desc d; d << "two threads on one reusable_storage_mtsafe:";
    for (int i = 0; i < 2; i++) d << " T" << i << "[" << (unsigned)p.rounds[i] << " coroutines of size class " << (unsigned)p.sc[i] << ", yield*" << (unsigned)p.yields[i] << "]";
    return d.s;
}
inline void run_mt(const MtProg &p) {
    {
        tracked<cocls::reusable_storage_mtsafe> a;
        auto body = [&a, &p](int t) {
            for (unsigned k = 0; k < p.rounds[t]; k++) {
                cocls::future<void> gate; cocls::promise<void> pr = gate.get_promise();
                cocls::future<int> res = create(a, p.sc[t], &gate, 10 * t + (int)k + 1);
                hz::upoints(p.yields[t]);
                pr();
                HZ_CHECK(res.ready() && res.value() >= 0, "canary locals of a frame were overwritten (frame memory shared between two live coroutines)");
            }
        };
        std::thread t0([&] { body(0); }), t1([&] { body(1); });
        t0.join(); t1.join();
        HZ_CHECK(hz::slot_get(32) == hz::slot_get(33) && hz::range_count() == 0, "%ld frames handed out, %ld released", hz::slot_get(32), hz::slot_get(33));
    }
    hz::set_class(P_MT_THREADS);
    hz::set_nontrivial(vrt::stats().switches > 0);
}

inline void run(hz::Reader &r) { unsigned sel = r.mod(4); if (sel < 3) run_seq(decode_seq(r)); else run_mt(decode_mt(r)); }
inline std::string describe(hz::Reader &r) { unsigned sel = r.mod(4); if (sel < 3) return describe_seq(decode_seq(r)); return describe_mt(decode_mt(r)); }
static const char *const class_names[] = {"default", "reusable", "reusable_mtsafe", "stack", "placement", "reusable_buffer", "extra_storage", "mtsafe:two-threads"};
static const char *const counter_names[] = {"frames_created", "reuse_hits_without_allocation", "heap_fallbacks", "attached_object_factories_that_threw"};

} // namespace scen_storage
