// C14 - generator aggregator: union of all sources, per-source order preserved
#include "scen_agg.h"
namespace hz {
static const Info I = {
    "C14", 1, 40, 200000, true, true,
    "rapidcheck generates (program, schedule): 0..5 scripted source generators (generator<int> or generator<int,int> echoing the routed argument), each finite (0..4 values), 'infinite' (longer than the consumer reads), "
    "optionally throwing at its end, optionally awaiting operations completed by another thread before some of its yields; consumer = blocking next()/value() or a coroutine doing co_await next(); optional destruction of the "
    "aggregate while parked after 1..3 values (from ordinary code, with asynchronous sources in flight). Oracle: every received value is the next unseen value of its source (no loss, duplicate, reorder), the aggregate ends iff all "
    "sources ended and every value was delivered, a throwing source's exception is reported at the end, argument routing (first argument to all sources, each later argument to the source returned last), all source bodies destroyed, "
    "allocation balance 0, no deadlock. Non-trivial = >=2 sources; distinct = hash(decoded program, executed switch trace).",
    scen_agg::class_names, 8, scen_agg::counter_names, 1};
const Info &info() { return I; }
void run_case(Reader &r) { scen_agg::run(r); }
std::string describe(Reader &r) { return scen_agg::describe(scen_agg::decode(r)); }
}
