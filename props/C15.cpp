// C15 - signal: every waiting listener gets every value; disconnect wakes all
#include "scen_signal.h"

namespace hz {
static const Info I = {
    "C15", 1, 122, 100000, true, true,
    "stateful byte-decoded histories (rapidcheck) over signal<int> / signal<void>: add coroutine listener (awaits 1..4 values or until cancelled), connect callback (true n times then false), emit by value / rvalue / lvalue reference / const lvalue / converting argument (the generic overload), "
    "copy or drop a signal/collector handle, listener subscribing from another thread (joined before, or overlapping, the next emission - generated schedules), collector called from ordinary code or from a coroutine that co_awaits the emission, awaiting a disconnected emitter, a hook-up episode (a coroutine registers through signal::hook_up, 0..4 values are emitted through the collector it was handed, the collector is dropped); "
    "finally every handle is dropped. Reference model = set of listeners waiting at each emission; after every op each listener's received sequence equals the model's (every waiting listener gets exactly that value exactly once, a re-awaiting listener misses none; "
    "a listener subscribing concurrently with an emission may or may not get that one), after the last handle died every waiting coroutine saw await_canceled_exception, callbacks were released, allocation balance 0. Domain: one collector call at a time (documented). "
    "Non-trivial = >=2 listeners waiting at some emission; distinct = hash(decoded history, executed switch trace).",
    c15::class_names, 4, c15::counter_names, 2};
const Info &info() { return I; }
void run_case(Reader &r) { c15::run(r); }
std::string describe(Reader &r) { return c15::describe(c15::decode(r)); }
}
