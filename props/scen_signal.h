// scen_signal.h - signal histories: C15, reused by C03 (TSan)
#pragma once
#include "common.h"
#include "values.h"

namespace c15 {

struct Op { uint8_t code, a, b; };
struct Prog { bool is_void; bool coro_mode; std::vector<Op> ops; };

inline Prog decode(hz::Reader &r) {
    Prog p; p.is_void = r.mod(4) == 0; p.coro_mode = r.mod(3) == 0;
    unsigned n = 0;
    while (r.more() && n < 40) { Op o; o.code = (uint8_t)r.mod(11); o.a = r.u8(); o.b = r.u8(); p.ops.push_back(o); n++; }
    return p;
}
static const char *opn[] = {"add coroutine listener", "connect callback", "emit(by value)", "emit(rvalue)", "emit(lvalue ref)", "copy handle", "drop handle",
                            "listener subscribes on another thread", "emit(const lvalue | converting argument: the collector's generic overload)", "add coroutine listener",
                            "hook-up episode (a coroutine registers through signal::hook_up and receives from the collector it was handed)"};
inline std::string describe(const Prog &p) {
    hz::Desc d; d << (p.is_void ? "signal<void>" : "signal<int>") << (p.coro_mode ? ", collector called from a coroutine (emission co_awaited)" : ", collector called from ordinary code") << ", " << (unsigned)p.ops.size() << " ops:";
    for (auto &o : p.ops) {
        d << " " << opn[o.code];
        if ((o.code == 0 || o.code == 9) && (o.b & 2) && o.a % 4 != 3) d << "[then keeps its emitter and waits for something else]";
        if (o.code == 0 || o.code == 9 || o.code == 7) d << "(" << (o.a % 4 == 3 ? std::string("until cancelled") : std::to_string(1 + o.a % 4) + " values") << ")";
        if (o.code == 1) d << "(true x" << (unsigned)(o.a % 4) << " then false)";
        if (o.code == 10) d << "(listener wants " << (o.a % 4 == 3 ? std::string("every value") : std::to_string(1 + o.a % 4)) << ", " << (unsigned)(o.b % 5) << " values emitted, then the collector is dropped" << (((o.b / 5) & 1) ? "; the registration function itself emits one value first" : "") << ")";
    }
    d << "; drop all handles";
    return d.s;
}

struct LRec {
    bool is_callback = false;
    int want = 0;                 // values before leaving (-1 = until cancelled); callback: true-returns before false
    std::vector<int> got;
    bool cancelled = false, left = false;
    // model
    std::vector<int> expect;
    bool active = true;           // waiting for emissions (model)
    int tolerant_first = -1;      // subscribed concurrently with this emission index: may or may not receive it
    bool expect_cancel = false;
};

template<bool VOID> struct Sig { using S = cocls::signal<int>; };
template<> struct Sig<true> { using S = cocls::signal<void>; };

template<bool VOID>
struct Run {
    using S = typename Sig<VOID>::S;
    std::vector<std::unique_ptr<S>> sigs;
    std::vector<std::unique_ptr<typename S::collector>> cols;
    std::deque<LRec> L;
    int emissions = 0;
    int lvalue_store = 0;
    long callbacks_alive() { return hz::slot_get(12); }

    // linger: after its last value the listener does not finish - it keeps its emitter object and waits for something else
    // (released at the very end of the history); it is not waiting on the signal any more and must not keep the others waiting
    cocls::future<void> linger_gate; cocls::promise<void> linger_p = linger_gate.get_promise(); int lingering = 0, lingered = 0;
    cocls::async<void> listener(LRec *pr, typename S::emitter em, bool linger = false) {
        LRec &r = *pr;
        for (int i = 0; r.want < 0 || i < r.want; i++) {
            try {
                if constexpr (VOID) { co_await em; r.got.push_back(-1); }
                else { int &v = co_await em; r.got.push_back(v); }
            } catch (const cocls::await_canceled_exception &) { r.cancelled = true; co_return; }
        }
        r.left = true;
        if (linger) { lingering++; co_await linger_gate; lingered++; }
    }
    struct CbGuard { CbGuard() { hz::slot_add(12, 1); } CbGuard(const CbGuard &) { hz::slot_add(12, 1); } CbGuard(CbGuard &&) noexcept { hz::slot_add(12, 1); } ~CbGuard() { hz::slot_add(12, -1); } };

    typename S::collector &col() { return *cols.front(); }
    bool has_handles() const { return !sigs.empty() || !cols.empty(); }
    S *any_signal() { return sigs.empty() ? nullptr : sigs.front().get(); }

    std::optional<typename S::emitter> spare;     // emitter obtained while the signal was alive
    void add_listener(int want, bool other_thread, bool overlap, bool linger = false) {
        S *s = any_signal();
        if (!s) {
            if (has_handles() || !spare) return;
            // awaiting a disconnected emitter fails immediately with await_canceled_exception
            size_t id = L.size();
            L.emplace_back(); L[id].want = want; L[id].active = false; L[id].expect_cancel = true;
            listener(&L[id], *spare).detach();
            return;
        }
        size_t id = L.size();
        L.emplace_back(); L[id].want = want;
        if (!other_thread) { listener(&L[id], s->get_emitter(), linger).detach(); return; }
        auto em = s->get_emitter();
        LRec *pr = &L[id];
        std::thread t([this, pr, em] { listener(pr, em).detach(); });
        if (!overlap) { t.join(); return; }
        pending_thread = std::move(t);
        L[id].tolerant_first = emissions;      // the next emission may or may not reach it
    }
    std::thread pending_thread;
    void join_pending() { if (pending_thread.joinable()) pending_thread.join(); }

    void add_callback(int trues) {
        S *s = any_signal();
        if (!s) return;
        size_t id = L.size();
        L.emplace_back(); L[id].is_callback = true; L[id].want = trues;
        LRec *r = &L[id];
        if constexpr (VOID) s->connect([r, g = CbGuard()]() { r->got.push_back(-1); return (int)r->got.size() <= r->want; });
        else s->connect([r, g = CbGuard()](int &v) { r->got.push_back(v); return (int)r->got.size() <= r->want; });
    }
    void model_emit(int v) {
        for (auto &r : L) {
            if (!r.active) continue;
            if (r.tolerant_first == emissions) continue;     // decided after the fact
            r.expect.push_back(v);
            if (r.is_callback) { if ((int)r.expect.size() > r.want) r.active = false; }
            else if (r.want >= 0 && (int)r.expect.size() >= r.want) r.active = false;
        }
    }
    // after the emission: a listener that subscribed concurrently either got the value or not
    void settle_tolerant(int v) {
        for (auto &r : L) if (r.tolerant_first == emissions && r.active) {
            if (!r.got.empty() && r.got.size() == r.expect.size() + 1 && r.got.back() == v) {
                r.expect.push_back(v);
                if (r.want >= 0 && (int)r.expect.size() >= r.want) r.active = false;
            }
        }
    }
    // hook_up: the first co_await creates a signal of its own, suspends the coroutine on it and only then hands the
    // collector to the registration function - the very first emission must not be missed
    std::optional<typename S::collector> hooked; bool hook_emit_in_reg = false; int hook_registrations = 0; bool hook_again = false; int hook_again_result = 0;
    cocls::async<void> hook_listener(LRec *pr) {
        LRec &r = *pr;
        // the registration function may emit at once through the collector it is handed (a generator that replays its
        // current value to a new subscriber): the listener is already waiting by then and must receive that value
        auto e = S::hook_up([this](typename S::collector c) {
            hook_registrations++;
            hooked.emplace(std::move(c));
            if (hook_emit_in_reg) { if constexpr (VOID) (*hooked)(); else (*hooked)(int(898)); }
        });
        for (int i = 0; r.want < 0 || i < r.want; i++) {
            try {
                if constexpr (VOID) { co_await e; r.got.push_back(-1); }
                else { int &v = co_await e; r.got.push_back(v); }
            } catch (const cocls::await_canceled_exception &) { r.cancelled = true; break; }
        }
        if (!r.cancelled) { r.left = true; co_return; }
        if (hook_again) {
            // awaiting the disconnected emitter once more fails the same way, at once - it does not register again
            hook_again_result = 1;
            try { co_await e; hook_again_result = 2; } catch (const cocls::await_canceled_exception &) { hook_again_result = 3; }
        }
    }
    void hook_episode(int want, int emit_n, bool emit_in_reg) {
        size_t id = L.size();
        L.emplace_back(); LRec &r = L[id]; r.want = want; r.active = false;      // not reached by the main signal's emissions
        hook_emit_in_reg = emit_in_reg; hook_registrations = 0; hook_again = (emit_n & 1) == 0; hook_again_result = 0;
        if (emit_in_reg) { r.expect.push_back(VOID ? -1 : 898); if (want > 0) want--; }
        hook_listener(&r).detach();
        HZ_CHECK(hooked.has_value(), "hook_up did not call the registration function when the coroutine suspended on it");
        for (int k = 0; k < emit_n; k++) {
            int v = VOID ? -1 : 900 + k;
            if (want < 0 || k < want) r.expect.push_back(v);        // (want: what the listener still wants after a value emitted by the registration function)
            if constexpr (VOID) (*hooked)(); else (*hooked)(int(v));
        }
        hooked.reset();                                  // last handle: a listener still waiting is cancelled
        r.expect_cancel = want < 0 || emit_n < want;
        if (r.expect_cancel && hook_again) HZ_CHECK(hook_again_result == 3, "a hook-up listener that was cancelled awaited its emitter again: %s (await_canceled_exception at once expected)", hook_again_result == 1 ? "it is suspended again" : hook_again_result == 2 ? "the await completed normally" : "it never got there");
        HZ_CHECK(hook_registrations == 1, "the registration function of a hook-up was called %d times (exactly once expected)", hook_registrations);
        hooked.reset();
        HZ_CHECK(r.left == !r.expect_cancel, "hook-up listener %s although it %s", r.left ? "left" : "did not leave", r.expect_cancel ? "was still waiting when the collector was dropped" : "had received everything it wanted");
    }
    void compare(const char *after) {
        for (size_t i = 0; i < L.size(); i++) {
            LRec &r = L[i];
            HZ_CHECK(r.got == r.expect, "after %s: listener %zu (%s) received %zu values, %zu expected (last got %d, last expected %d): a waiting listener missed a value or got one twice",
                     after, i, r.is_callback ? "callback" : "coroutine", r.got.size(), r.expect.size(), r.got.empty() ? 0 : r.got.back(), r.expect.empty() ? 0 : r.expect.back());
            HZ_CHECK(r.cancelled == r.expect_cancel, "after %s: listener %zu cancelled=%d, expected %d", after, i, (int)r.cancelled, (int)r.expect_cancel);
        }
    }
    void disconnect_model() { for (auto &r : L) if (r.active) { r.active = false; if (!r.is_callback) r.expect_cancel = true; } }
};

template<bool VOID>
cocls::async<void> emit_coro(Run<VOID> &R, int how, int v) {
    if constexpr (VOID) { co_await R.col()(); }
    else {
        if (how == 0) { co_await R.col()(int(v)); }
        else if (how == 1) { int x = v; co_await R.col()(std::move(x)); }
        else if (how == 2) { R.lvalue_store = v; co_await R.col()(R.lvalue_store); }
        else if (how == 3) { const int cv = v; co_await R.col()(cv); }
        else { co_await R.col()((long)v); }
    }
}

template<bool VOID>
void run_t(const Prog &p) {
    unsigned max_waiting = 0; bool threaded = false; unsigned lingering_total = 0;
    {
        Run<VOID> R;
        R.sigs.emplace_back(new typename Run<VOID>::S());
        R.cols.emplace_back(new typename Run<VOID>::S::collector(R.sigs[0]->get_collector()));
        R.spare.emplace(R.sigs[0]->get_emitter());
        for (auto &o : p.ops) {
            switch (o.code) {
                case 0: case 9: R.add_listener(o.a % 4 == 3 ? -1 : 1 + o.a % 4, false, false, (o.b & 2) != 0); break;
                case 1: R.add_callback(o.a % 4); break;
                case 2: case 3: case 4: case 8: {
                    if (R.cols.empty()) break;
                    int v = VOID ? -1 : 100 + R.emissions;
                    int how = o.code == 3 ? 1 : o.code == 4 ? 2 : o.code == 8 ? 3 + (o.a & 1) : 0;
                    unsigned waiting = 0; for (auto &r : R.L) if (r.active) waiting++;
                    if (waiting > max_waiting) max_waiting = waiting;
                    R.model_emit(v);
                    if (p.coro_mode) { cocls::future<void> f = emit_coro<VOID>(R, how, v).start(); HZ_CHECK(f.ready(), "emitting coroutine did not finish"); }
                    else if constexpr (VOID) R.col()();
                    else { if (how == 0) R.col()(int(v)); else if (how == 1) { int x = v; R.col()(std::move(x)); } else if (how == 2) { R.lvalue_store = v; R.col()(R.lvalue_store); } else if (how == 3) { const int cv = v; R.col()(cv); } else R.col()((long)v); }
                    R.join_pending();
                    R.settle_tolerant(v);
                    R.emissions++;
                } break;
                case 5: {
                    if (o.a & 1) { if (!R.sigs.empty()) R.sigs.emplace_back(new typename Run<VOID>::S(*R.sigs[o.b % R.sigs.size()])); }
                    else if (!R.cols.empty()) R.cols.emplace_back(new typename Run<VOID>::S::collector(*R.cols[o.b % R.cols.size()]));
                } break;
                case 6: {
                    R.join_pending();
                    // never drop the last collector while signals remain (keeps the history able to emit) unless asked
                    if ((o.a & 1) && R.sigs.size() > 0 && (R.sigs.size() + R.cols.size() > 1 || (o.b & 3) == 0)) R.sigs.erase(R.sigs.begin() + (long)(o.b % R.sigs.size()));
                    else if (R.cols.size() > 0 && (R.sigs.size() + R.cols.size() > 1 || (o.b & 3) == 0)) R.cols.erase(R.cols.begin() + (long)(o.b % R.cols.size()));
                    if (!R.has_handles()) R.disconnect_model();
                } break;
                case 10: R.hook_episode(o.a % 4 == 3 ? -1 : 1 + o.a % 4, o.b % 5, (o.b / 5) & 1); break;
                case 7: threaded = true; R.add_listener(o.a % 4 == 3 ? -1 : 1 + o.a % 4, true, (o.b & 1) && !R.pending_thread.joinable()); break;
            }
            if (!R.pending_thread.joinable()) R.compare(opn[o.code]);
        }
        R.join_pending();
        // a listener that subscribed concurrently with an emission that never came is simply waiting
        R.cols.clear(); R.sigs.clear();
        R.disconnect_model();
        R.compare("last handle dropped");
        R.linger_p();
        HZ_CHECK(R.lingered == R.lingering, "%d of %d listeners that went on to wait for something else were continued", R.lingered, R.lingering);
        lingering_total = (unsigned)R.lingering;
        HZ_CHECK(R.callbacks_alive() == 0, "%ld connected callbacks were not released when the signal died", R.callbacks_alive());
    }
    hz::set_class((threaded ? 1 : 0) | (p.coro_mode ? 2 : 0));
    hz::set_nontrivial(max_waiting >= 2);
    hz::count(0, max_waiting); hz::count(1, lingering_total);
}

inline void run(hz::Reader &r) { Prog p = decode(r); if (p.is_void) run_t<true>(p); else run_t<false>(p); }
static const char *const class_names[] = {"normal", "normal+thread-subscriber", "coroutine-emitter", "coroutine-emitter+thread-subscriber"};
static const char *const counter_names[] = {"sum_max_waiting_listeners", "listeners_that_kept_their_emitter_and_waited_for_something_else"};
} // namespace c15
