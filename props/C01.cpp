// C01 - a future is resolved exactly once, by exactly one winner
#include "scen_future.h"
namespace hz {
static const Info I = {
    "C01", 1, 26, 60000, true, true,
    "rapidcheck generates (program, schedule, faults); the program decodes to a value type in {int, void, move-only, int&, instance-counted}, "
    "2..4 resolver threads sharing ONE promise (each: value / exception / drop / nothing / async coroutine bound by start(promise) returning or throwing / move the promise away then resolve / move-assign away and destroy / bind(value)() / unhandled_exception() / promise_with_default destroyed), "
    "the promise moved 0..2 times first, 0..2 observers of 7 kinds, harness yields; the owner destroys the promise after joining the resolvers. "
    "Oracle: exactly one call reports success (0 if nobody acted -> destructor resolves), final result == winner's payload, all observers agree, "
    "result stable on re-read, instance counts balanced, allocation balance 0. Non-trivial = two acting resolvers' call intervals overlapped AND a "
    "context switch happened inside a library operation; distinct = hash(decoded program, executed switch trace).",
    scen_future::class_names, 8, scen_future::counter_names, 3};
const Info &info() { return I; }
void run_case(Reader &r) { scen_future::run(r, scen_future::M_C01); }
std::string describe(Reader &r) { return scen_future::describe(scen_future::decode(r, scen_future::M_C01)); }
}
