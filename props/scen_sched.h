// scen_sched.h - scheduler scenarios: C12 (a) manual-mode histories, (b) single-thread
// start(awaitable) under virtual time, (c) thread / thread-pool mode on vrt; reused by C03.
#pragma once
#include "common.h"
#include "values.h"

namespace scen_sched {

using Clock = std::chrono::system_clock;            // renamed to the virtual clock
using TP = Clock::time_point;
using ms = std::chrono::milliseconds;
inline TP at_ms(long t) { return TP(std::chrono::duration_cast<Clock::duration>(ms(t))); }
inline TP at_us(long t) { return TP(std::chrono::duration_cast<Clock::duration>(std::chrono::microseconds(t))); }
inline long now_ms() { return (long)(vrt::now_ns() / 1000000); }
static char idtags[4];
inline const void *ident(unsigned k) { return &idtags[k & 3]; }

// observation of a future<void>: 0 completed, -1 canceled (await_canceled_exception), 1000+e, -2 pending
inline int observe(cocls::future<void> &f) {
    if (!f.ready()) return -2;
    try { f.value(); return 0; }
    catch (const val::TestExc &e) { return 1000 + e.id; }
    catch (const cocls::await_canceled_exception &) { return -1; }
    catch (...) { return -4; }
}

// ================================================================ (a) manual mode
struct Op { uint8_t code, a, b; };
struct ManProg { std::vector<Op> ops; };
inline ManProg decode_man(hz::Reader &r) {
    ManProg p; unsigned n = 0;
    while (r.more() && n < 60) { Op o; o.code = (uint8_t)r.mod(9); o.a = r.u8(); o.b = r.u8(); p.ops.push_back(o); n++; }
    return p;
}
static const long lattice[6] = {0, 10, 10, 20, 30, 5};
static const char *man_opn[] = {"sleep_until", "sleep_until", "sleep_until", "cancel(id)", "cancel(id,e)", "remove(id)", "advance+drain", "get_expired", "cancel(id)"};
inline std::string describe_man(const ManProg &p) {
    hz::Desc d; d << "manual mode, " << (unsigned)p.ops.size() << " ops:";
    for (auto &o : p.ops) {
        d << " " << man_opn[o.code];
        if (o.code <= 2) d << "(now" << (lattice[o.a % 6] - 10 >= 0 ? "+" : "") << (int)(lattice[o.a % 6] - 10) << ((o.b & 1) ? ".999 by sleep_for" : "") << ",id" << (unsigned)((o.a >> 4) & 3) << ")";
        else if (o.code <= 5 || o.code == 8) d << "(id" << (unsigned)(o.a & 3) << ")";
        else if (o.code == 6) d << "(+" << (int)lattice[o.a % 6] << ")";
    }
    d << "; destroy";
    return d.s;
}

struct ManStats { unsigned cancels_hit = 0, cancels_miss = 0, cancel_after_expiry = 0, equal_deadline = 0, cancel_non_top = 0, expired = 0; };

struct ManRun {
    struct Ent { long tp; unsigned id; int expect; bool pending; };
    std::unique_ptr<cocls::scheduler> s;
    std::vector<std::unique_ptr<cocls::future<void>>> fut;
    std::vector<Ent> ent;
    bool id_ever_expired[4] = {};
    long now = 100000;             // model time in MICROseconds (the lattice is in ms; sleep_for adds a fraction of a ms)
    ManStats st;

    std::vector<size_t> pending_with(unsigned id) { std::vector<size_t> v; for (size_t i = 0; i < ent.size(); i++) if (ent[i].pending && ent[i].id == id) v.push_back(i); return v; }
    long min_pending() { long m = LONG_MAX; for (auto &e : ent) if (e.pending && e.tp < m) m = e.tp; return m; }
    // which pending future changed state since the model last looked?  exactly `want` of `cand`
    void settle(const std::vector<size_t> &cand, unsigned want, int code, const char *what) {
        unsigned hit = 0;
        for (size_t i : cand) {
            int o = observe(*fut[i]);
            if (o != -2) {
                HZ_CHECK(o == code, "%s: sleep #%zu completed with %d, expected %d", what, i, o, code);
                ent[i].pending = false; ent[i].expect = code; hit++;
            }
        }
        HZ_CHECK(hit == want, "%s: %u pending sleeps with that id completed, expected exactly %u", what, hit, want);
    }
    void compare(const char *after) {
        for (size_t i = 0; i < fut.size(); i++) {
            int o = observe(*fut[i]);
            HZ_CHECK(o == ent[i].expect, "after %s: sleep #%zu (tp=%ld id%u) shows %d, model expects %d (0 done, -1 canceled, -2 pending, 1000+ exception)", after, i, ent[i].tp, ent[i].id, o, ent[i].expect);
        }
    }
    void expire_once(bool &more) {
        auto r = s->get_expired(at_us(now));
        if (std::holds_alternative<cocls::scheduler::promise>(r)) {
            std::vector<size_t> cand; long m = min_pending();
            for (size_t i = 0; i < ent.size(); i++) if (ent[i].pending) cand.push_back(i);
            std::get<cocls::scheduler::promise>(r)();
            unsigned hit = 0;
            for (size_t i : cand) if (observe(*fut[i]) != -2) {
                hit++;
                HZ_CHECK(observe(*fut[i]) == 0, "expired sleep #%zu completed with %d", i, observe(*fut[i]));
                HZ_CHECK(ent[i].tp <= now, "sleep #%zu with time point %ld completed EARLY at now=%ld", i, ent[i].tp, now);
                HZ_CHECK(ent[i].tp == m, "sleep #%zu (tp=%ld) was returned before the pending sleep with the earliest time point %ld (deadline order)", i, ent[i].tp, m);
                ent[i].pending = false; ent[i].expect = 0; id_ever_expired[ent[i].id] = true; st.expired++;
            }
            HZ_CHECK(hit == 1, "get_expired returned a promise that completed %u pending sleeps (exactly one expected)", hit);
            more = true;
        } else {
            TP tp = std::get<TP>(r);
            long m = min_pending();
            HZ_CHECK(m == LONG_MAX || m > now, "get_expired(now=%ld) returned no promise although a sleep with time point %ld is due", now, m);
            if (m == LONG_MAX) HZ_CHECK(tp == TP::max(), "get_expired reported a next time point although nothing is pending");
            else HZ_CHECK(tp == at_us(m), "get_expired reported next time point %ld us, earliest pending is %ld us", (long)std::chrono::duration_cast<std::chrono::microseconds>(tp.time_since_epoch()).count(), m);
            more = false;
        }
    }
    void run(const ManProg &p) {
        s.reset(new cocls::scheduler());
        for (auto &o : p.ops) {
            switch (o.code) {
                case 0: case 1: case 2: {
                    long tp = now + (lattice[o.a % 6] - 10) * 1000; unsigned id = (o.a >> 4) & 3;
                    if (o.b & 1) {
                        // sleep_for with a duration that is not a whole number of milliseconds: the time point is clock now + dur, exactly
                        long vnow = (long)(vrt::now_ns() / 1000);
                        tp += 999;
                        for (auto &e : ent) if (e.pending && e.tp == tp) st.equal_deadline++;
                        ent.push_back({tp, id, -2, true});
                        fut.emplace_back(new cocls::future<void>(s->sleep_for(std::chrono::microseconds(tp - vnow), ident(id))));
                        break;
                    }
                    for (auto &e : ent) if (e.pending && e.tp == tp) st.equal_deadline++;
                    ent.push_back({tp, id, -2, true});
                    fut.emplace_back(new cocls::future<void>(s->sleep_until(at_us(tp), ident(id))));
                } break;
                case 3: case 4: case 8: {
                    unsigned id = o.a & 3; auto cand = pending_with(id);
                    bool r;
                    int code = o.code == 4 ? 1000 + (o.b & 7) : -1;
                    if (o.code == 4) r = s->cancel(ident(id), std::make_exception_ptr(val::TestExc(o.b & 7)));
                    else r = s->cancel(ident(id));
                    HZ_CHECK(r == !cand.empty(), "cancel(id%u) returned %d while %zu sleeps with that id were pending", id, (int)r, cand.size());
                    if (!cand.empty()) {
                        st.cancels_hit++;
                        long m = min_pending(); bool top = false; for (size_t i : cand) if (ent[i].tp == m) top = true;
                        if (!top) st.cancel_non_top++;
                    } else { st.cancels_miss++; if (id_ever_expired[id]) st.cancel_after_expiry++; }
                    settle(cand, cand.empty() ? 0 : 1, code, "cancel");
                } break;
                case 5: {
                    unsigned id = o.a & 3; auto cand = pending_with(id);
                    cocls::scheduler::promise pr = s->remove(ident(id));
                    HZ_CHECK((bool)pr == !cand.empty(), "remove(id%u) returned %s promise while %zu sleeps with that id were pending", id, pr ? "a" : "no", cand.size());
                    if (pr) {
                        if (o.b & 1) { pr(std::make_exception_ptr(val::TestExc(7))); settle(cand, 1, 1007, "remove+resolve"); }
                        else { pr(cocls::drop); settle(cand, 1, -1, "remove+drop"); }
                    }
                } break;
                case 6: { now += lattice[o.a % 6] * 1000; bool more = true; int guard = 0; while (more) { expire_once(more); HZ_CHECK(++guard < 200, "get_expired keeps returning promises"); } } break;
                default: { bool more; expire_once(more); } break;
            }
            compare(man_opn[o.code]);
        }
        for (auto &e : ent) if (e.pending) { e.pending = false; e.expect = -1; }
        s.reset();
        compare("scheduler destruction");
    }
};

inline void run_man(const ManProg &p) {
    ManStats st;
    { ManRun R; R.run(p); st = R.st; }
    hz::set_class(0);
    hz::set_nontrivial(st.cancel_non_top || st.equal_deadline || st.cancel_after_expiry);
    hz::count(0, st.cancels_hit); hz::count(1, st.cancels_miss); hz::count(2, st.cancel_after_expiry); hz::count(3, st.equal_deadline); hz::count(4, st.cancel_non_top); hz::count(5, st.expired);
}

// ================================================================ (b)+(c) running scheduler
// One scenario, three hosting modes: 0 single-thread start(awaitable), 1 thread mode,
// 2 thread-pool mode.  Sleepers are coroutines (or blocking threads in modes 1/2) with a
// generated duration and id; cancellers sleep and then cancel an id; optional interval().
struct Sleeper { uint8_t dur; uint8_t id; uint8_t kind; uint8_t busy = 0; uint8_t recursive = 0; };   // recursive: after it woke the sleeper serves the scheduler itself with a nested start(sleep 5ms) (documented: start may be used recursively)
//   // busy: ms of blocking work the sleeper does right after it woke (occupies the thread that resumed it)
//    // kind 0 coroutine sleeper, 1 blocking thread sleeper (modes 1/2), 2 canceller
struct RunProg { uint8_t mode; uint8_t pool_threads; std::vector<Sleeper> sl; uint8_t interval; bool wait_first; bool destroy_pending; uint8_t start_form = 0; bool root_value = false; };
// start_form (modes 1,2): 0 constructor taking the thread / pool, 1 default-constructed scheduler then start(thread|pool), 2 (mode 1) start_thread() - a detached thread
// root_value (mode 0): the awaitable handed to start() carries a value, which start() must return

inline RunProg decode_run(hz::Reader &r) {
    RunProg p;
    p.mode = (uint8_t)r.mod(4);
    p.pool_threads = (uint8_t)(1 + r.mod(2));
    unsigned n = 1 + r.mod(4);
    for (unsigned i = 0; i < n; i++) {
        Sleeper s; s.dur = (uint8_t)(r.mod(5) * 10); s.id = (uint8_t)r.mod(4);
        s.kind = (uint8_t)r.mod(3);
        if (p.mode == 0 && s.kind == 1) s.kind = 0;
        p.sl.push_back(s);
    }
    p.interval = (uint8_t)r.mod(3);          // 0 none, 1 interval stopped by token, 2 interval ticks consumed
    p.wait_first = r.flag();
    p.destroy_pending = r.flag();
    // a sleeper that keeps the thread which woke it busy: the others must still be woken on time as long as a worker is idle
    unsigned nb = r.mod(3);
    for (unsigned k = 0; k < nb && k < p.sl.size(); k++) { Sleeper &x = p.sl[r.mod((unsigned)p.sl.size())]; if (x.kind == 0) x.busy = (uint8_t)(15 * (1 + r.mod(2))); }
    { unsigned e = r.mod(6); p.start_form = (uint8_t)(e < 3 ? 0 : e == 3 ? 1 : e == 4 ? 2 : 1); if (p.mode == 2 && p.start_form == 2) p.start_form = 1; if (p.mode == 0 || p.mode == 3) p.start_form = 0;
      p.root_value = p.mode == 0 && e >= 3; }
    // (a recursive start() from inside a coroutine is NOT generated: two worker coroutines on one thread never find the ready
    //  queue empty, so neither blocks - they poll until the deadline passes in REAL time, which never happens under virtual time)
    return p;
}
inline std::string describe_run(const RunProg &p) {
    static const char *modes[] = {"single-thread start(awaitable)", "thread mode", "thread-pool mode", "two workers (thread mode + the owner serving start(awaitable))"};
    static const char *kinds[] = {"coroutine sleeper", "blocking-thread sleeper", "canceller"};
    hz::Desc d; d << modes[p.mode];
    if (p.start_form == 1) d << " [default-constructed, then start(thread|pool)]"; else if (p.start_form == 2) d << " [start_thread(): detached thread]";
    if (p.root_value) d << " [start() of an awaitable carrying a value]";
    if (p.mode == 2) d << "(" << (unsigned)p.pool_threads << " workers)";
    d << ":";
    for (auto &s : p.sl) { d << " [" << kinds[s.kind] << " " << (unsigned)s.dur << "ms id" << (unsigned)s.id; if (s.busy) d << ", then busy " << (unsigned)s.busy << "ms"; if (s.recursive) d << ", then a nested start(sleep 5ms)"; d << "]"; }
    if (p.interval) d << (p.interval == 1 ? " + interval(10ms) stopped through its stop token" : " + interval(10ms) 2 ticks consumed");
    if (p.mode) d << (p.wait_first ? "; owner waits for the sleeps, then destroys" : "; owner destroys") << (p.destroy_pending ? " with an extra 1h sleep pending" : "");
    return d.s;
}

struct SRec { long tp = 0; long woke = -1; int code = -100; int order = 0; bool cancel_result = false; long cancel_at = -1; long busy_until = -1; };

struct RunCtx {
    cocls::scheduler *s = nullptr;
    const RunProg *p = nullptr;
    std::vector<SRec> rec;
    int order = 0;
    int done = 0;
    long ticks = 0; int interval_code = -100; int recursive_done = 0;
    bool any_busy() const { for (auto &x : p->sl) if (x.busy) return true; return false; }
    unsigned workers() const { return p->mode == 2 ? p->pool_threads : p->mode == 3 ? 2 : 1; }

    cocls::async<void> sleeper(size_t i) {
        const Sleeper &x = p->sl[i];
        SRec &r = rec[i];
        r.tp = now_ms() + x.dur;
        int code = 0;
        try { co_await s->sleep_until(at_ms(r.tp), ident(x.id)); }
        catch (const cocls::await_canceled_exception &) { code = -1; }
        r.woke = now_ms(); r.code = code; r.order = hz::tick();
        if (x.busy) { r.busy_until = r.woke + x.busy; vrt::sleep_until((uint64_t)r.busy_until * 1000000ull); }
        if (x.recursive) {
            // recursive use of the scheduler from inside a coroutine it runs: the nested start() serves every due sleep
            // itself until its own awaitable completes, so nobody is delayed
            long t0 = now_ms();
            auto nested = s->sleep_until(at_ms(t0 + 5), nullptr);
            try { s->start(nested); } catch (const cocls::await_canceled_exception &) {}
            HZ_CHECK(now_ms() >= t0 + 5 || any_busy(), "nested start(sleep 5ms) returned after %ld ms", now_ms() - t0);
            recursive_done++;
        }
    }
    cocls::async<void> canceller(size_t i) {
        const Sleeper &x = p->sl[i];
        SRec &r = rec[i];
        r.tp = now_ms() + x.dur;
        int code = 0;
        try { co_await s->sleep_until(at_ms(r.tp), nullptr); }
        catch (const cocls::await_canceled_exception &) { code = -1; }
        r.woke = now_ms(); r.code = code; r.order = hz::tick();
        r.cancel_at = now_ms();
        r.cancel_result = s->cancel(ident(x.id));
    }
    cocls::async<void> stopper(std::stop_source *src) {
        try { co_await s->sleep_until(at_ms(now_ms() + 15), nullptr); } catch (const cocls::await_canceled_exception &) {}
        src->request_stop();                     // while the interval generator sleeps: must neither hang nor crash
    }
    cocls::async<void> ticker(std::stop_source *src, bool consume) {
        auto gen = s->interval(ms(10), src->get_token());
        int code = 0;
        long t0 = now_ms();
        try {
            if (consume) {
                for (int k = 0; k < 2; k++) {
                    bool more = co_await gen.next();
                    if (!more) break;
                    ticks++;
                    if (!any_busy()) HZ_CHECK(now_ms() == t0 + 10 * (k + 1), "interval tick %d arrived at %ld ms, expected %ld ms", k, now_ms(), t0 + 10 * (k + 1));
                }
            } else {
                bool more = co_await gen.next();     // first tick at +10ms
                if (more) ticks++;
                bool more2 = co_await gen.next();    // generator sleeps until +20ms; stop arrives at +15ms
                if (more2) ticks += 100;             // a tick after the stop request is wrong
                if (!any_busy()) HZ_CHECK(now_ms() == t0 + 15, "interval generator ended at %ld ms, stop was requested at %ld ms", now_ms(), t0 + 15);
            }
        } catch (const cocls::await_canceled_exception &) { code = -1; }
        interval_code = code;
    }
    cocls::async<int> root_value(std::stop_source *src) { co_await root(src); co_return 4711; }
    // everything the scenario runs inside the scheduler
    cocls::async<void> root(std::stop_source *src) {
        std::vector<std::unique_ptr<cocls::future<void>>> f;
        for (size_t i = 0; i < p->sl.size(); i++) {
            if (p->sl[i].kind == 1) continue;
            if (p->sl[i].kind == 2) f.emplace_back(new cocls::future<void>(canceller(i).start()));
            else f.emplace_back(new cocls::future<void>(sleeper(i).start()));
        }
        if (p->interval) f.emplace_back(new cocls::future<void>(ticker(src, p->interval == 2).start()));
        if (p->interval == 1) f.emplace_back(new cocls::future<void>(stopper(src).start()));
        for (auto &x : f) { co_await *x; }
    }
    void check(const char *where) {
        // never early; exactly at the time point whenever a worker is idle at that moment (virtual time only jumps
        // when everything is idle).  A sleeper doing blocking work after it woke occupies the thread that resumed it.
        bool busy_any = any_busy();
        for (size_t i = 0; i < rec.size(); i++) {
            const SRec &r = rec[i];
            HZ_CHECK(r.woke >= 0, "%s: sleeper %zu never completed", where, i);
            if (r.code == 0) {
                HZ_CHECK(r.woke >= r.tp, "%s: sleeper %zu woke at %ld ms, before its time point %ld ms", where, i, r.woke, r.tp);
                // a thread that started its blocking work strictly BEFORE this time point cannot have taken this entry
                // (entries are only taken when due): it is merely unavailable.  One that started AT this time point may
                // have taken this entry too and queued it behind the work: then lateness is the user's doing, not checked.
                unsigned occupied = 0; bool ambiguous = false;
                for (size_t k = 0; k < rec.size(); k++) if (k != i && rec[k].busy_until >= 0 && r.tp < rec[k].busy_until) {
                    if (rec[k].woke < r.tp) occupied++; else if (rec[k].woke == r.tp) ambiguous = true;
                }
                if (!ambiguous && occupied < workers())
                    HZ_CHECK(r.woke == r.tp, "%s: sleeper %zu woke at %ld ms, later than its time point %ld ms although %u of %u scheduling threads were idle", where, i, r.woke, r.tp, workers() - occupied, workers());
            } else {
                HZ_CHECK(r.code == -1, "%s: sleeper %zu finished with %d", where, i, r.code);
                if (!busy_any) HZ_CHECK(r.woke <= r.tp, "%s: cancelled sleeper %zu woke after its time point", where, i);
            }
        }
        // deadline order among normally expired sleeps (continuations on different busy threads may be recorded in any order)
        if (!busy_any)
        for (size_t i = 0; i < rec.size(); i++) for (size_t j = 0; j < rec.size(); j++)
            if (rec[i].code == 0 && rec[j].code == 0 && rec[i].tp < rec[j].tp)
                HZ_CHECK(rec[i].order < rec[j].order, "%s: sleeper %zu (tp %ld) completed after sleeper %zu (tp %ld)", where, i, rec[i].tp, j, rec[j].tp);
        // cancel hits exactly its target: true iff some sleep with that id was pending at that moment
        for (size_t c = 0; c < rec.size(); c++) {
            if (p->sl[c].kind != 2 || rec[c].cancel_at < 0) continue;
            unsigned pending = 0, cancelled_now = 0;
            for (size_t i = 0; i < rec.size(); i++) {
                if (p->sl[i].kind == 2 || p->sl[i].id != p->sl[c].id) continue;
                // pending at the moment of the cancel: scheduled before, not woken before
                bool was_cancelled_here = rec[i].code == -1 && rec[i].woke == rec[c].cancel_at;
                if (was_cancelled_here) cancelled_now++;
                if (rec[i].tp > rec[c].cancel_at && rec[i].code == 0) pending++;   // survived: must not have been the only target
            }
            if (rec[c].cancel_result) HZ_CHECK(cancelled_now >= 1, "%s: cancel by %zu reported true but no sleep with id%u was cancelled at %ld ms", where, c, (unsigned)p->sl[c].id, rec[c].cancel_at);
            (void)pending;
        }
        if (p->interval == 2) HZ_CHECK(ticks == 2 && interval_code == 0, "%s: interval generator delivered %ld ticks (code %d), 2 expected", where, ticks, interval_code);
        if (p->interval == 1 && !any_busy()) HZ_CHECK(ticks == 1 && interval_code == 0, "%s: interval generator with stop token: %ld ticks, code %d (1 tick then end expected)", where, ticks, interval_code);
    }
};

inline void blocking_sleeper(RunCtx &c, size_t i) {
    const Sleeper &x = c.p->sl[i];
    SRec &r = c.rec[i];
    r.tp = now_ms() + x.dur;
    int code = 0;
    try { c.s->sleep_until(at_ms(r.tp), ident(x.id)).wait(); }
    catch (const cocls::await_canceled_exception &) { code = -1; }
    r.woke = now_ms(); r.code = code; r.order = hz::tick();
}

inline void run_run(const RunProg &p) {
    RunCtx c; c.p = &p; c.rec.resize(p.sl.size());
    std::stop_source src;
    if (p.mode == 0) {
        cocls::scheduler s; c.s = &s;
        if (p.root_value) {
            // start() returns the value of the await operation
            cocls::future<int> root = c.root_value(&src);
            int v = s.start(root);
            HZ_CHECK(v == 4711, "start(awaitable) returned %d, the awaited operation completed with 4711", v);
        } else {
            auto root = c.root(&src);
            s.start(root);
        }
        c.check("single-thread mode");
    } else {
        std::unique_ptr<cocls::thread_pool> pool;
        std::thread thr;
        std::unique_ptr<cocls::scheduler> s;
        if (p.mode == 2) { pool.reset(new cocls::thread_pool(p.pool_threads)); if (p.start_form) { s.reset(new cocls::scheduler()); s->start(*pool); } else s.reset(new cocls::scheduler(*pool)); }
        else if (p.start_form == 2) { s.reset(new cocls::scheduler()); s->start_thread(); }
        else if (p.start_form == 1) { s.reset(new cocls::scheduler()); s->start(thr); }
        else s.reset(new cocls::scheduler(thr));
        c.s = s.get();
        std::vector<std::thread> bl;
        for (size_t i = 0; i < p.sl.size(); i++) if (p.sl[i].kind == 1) bl.emplace_back([&c, i] { blocking_sleeper(c, i); });
        std::unique_ptr<cocls::future<void>> pending;
        if (p.mode == 3) {
            // two workers: the scheduler's own thread and the owner serving start(awaitable).  Everything is scheduled by a
            // THIRD thread, typically while both workers are already waiting (each must then re-arm for new nearest deadlines)
            cocls::future<void> gate_all; cocls::promise<void> gp = gate_all.get_promise();
            std::thread starter([&c, &src, &gp] { hz::upoint(); cocls::future<void> all = c.root(&src).start(); all.wait(); gp(); });
            if (p.destroy_pending) pending.reset(new cocls::future<void>(s->sleep_for(std::chrono::hours(1), &c)));
            s->start(gate_all);
            starter.join();
        } else {
            cocls::future<void> all = c.root(&src).start();
            if (p.destroy_pending) pending.reset(new cocls::future<void>(s->sleep_for(std::chrono::hours(1), &c)));
            all.wait();      // the root future lives on this stack: always wait for it
        }
        for (auto &t : bl) t.join();
        // destruction: must return promptly (no lost stop notification), pending sleeps are cancelled
        long t_before = now_ms();
        s.reset();
        HZ_CHECK(now_ms() == t_before, "scheduler destruction took %ld ms of virtual time: the stop request was missed until the next deadline", now_ms() - t_before);
        if (pending) {
            HZ_CHECK(pending->ready(), "sleep still pending after the scheduler was destroyed");
            HZ_CHECK(observe(*pending) == -1, "sleep pending at destruction completed with %d instead of being cancelled", observe(*pending));
        }
        if (thr.joinable()) thr.join();
        pool.reset();
        c.check(p.mode == 1 ? "thread mode" : p.mode == 2 ? "thread-pool mode" : "two-worker mode");
    }
    unsigned cancels = 0; for (auto &x : p.sl) if (x.kind == 2) cancels++;
    hz::set_class(1 + (p.mode == 3 ? 1 : p.mode));
    hz::set_nontrivial(p.sl.size() >= 2 || cancels || p.interval);
}

// first byte: 0..2 manual history, 3..5 running scheduler
inline void run(hz::Reader &r) {
    unsigned sel = r.mod(6);
    if (sel < 3) run_man(decode_man(r)); else run_run(decode_run(r));
}
inline std::string describe(hz::Reader &r) {
    unsigned sel = r.mod(6);
    if (sel < 3) return describe_man(decode_man(r));
    return describe_run(decode_run(r));
}
static const char *const class_names[] = {"manual-history", "single-thread-start", "thread-mode", "thread-pool-mode"};
static const char *const counter_names[] = {"cancels_hit", "cancels_miss", "cancel_after_expiry", "equal_deadline_pairs", "cancel_of_non_top_entry", "expired"};

} // namespace scen_sched
