// C19 - coroutine storage policies give every frame exclusive, correctly freed memory
#include "scen_storage.h"
namespace hz {
static const Info I = {
    "C19", 1, 90, 100000, true, true,
    "first byte selects {stateful history per policy (3/4), two threads on one reusable_storage_mtsafe (1/4)}. History: policy in {default, reusable, reusable_mtsafe, stack (alloca + heap fallback with shared size state), placement, "
    "reusable_buffer<vector<char>>, promise_extra_storage<Extra, default>}, up to 40 ops of create(coroutine of one of three frame sizes, suspended on a gate) / complete(k); every policy is wrapped in a tracking allocator that registers "
    "[ptr,ptr+size) of each frame. Oracle: ranges of simultaneously live frames are disjoint, canary locals intact at completion, every frame released exactly once with its size, allocation balance 0; reusing policies: zero global allocations for a "
    "frame size already served (exactly 1 for the thread-safe variant's fallback while its block is held by a live frame); extra object constructed once, usable immediately, destroyed with its frame. Domain: single-use policies host one live frame at a time (documented). "
    "Threads: 1..3 coroutines per thread with generated schedules - disjoint ranges + canaries. Non-trivial = >=2 frames created (history) / >=1 context switch (threads); distinct = hash(decoded program, executed switch trace).",
    scen_storage::class_names, 8, scen_storage::counter_names, 4};
const Info &info() { return I; }
void run_case(Reader &r) { scen_storage::run(r); }
std::string describe(Reader &r) { return scen_storage::describe(r); }
}
