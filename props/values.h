// values.h - payload types (DESIGN 2.4)
#pragma once
#include "common.h"

namespace val {

struct TestExc : std::exception { int id; explicit TestExc(int i) : id(i) {} const char *what() const noexcept override { return "TestExc"; } };

struct PlainExc { int id; };      // an exception type that is NOT derived from std::exception
struct MoveOnly {
    int id;
    explicit MoveOnly(int i) : id(i) {}
    MoveOnly(MoveOnly &&o) noexcept : id(o.id) { o.id = -77; }
    MoveOnly &operator=(MoveOnly &&o) noexcept { id = o.id; o.id = -77; return *this; }
    MoveOnly(const MoveOnly &) = delete;
    MoveOnly &operator=(const MoveOnly &) = delete;
};

// instance-counted, multi-word checksummed body: a half-published or destroyed instance is visible
enum { SLOT_CTOR = 40, SLOT_DTOR = 41, SLOT_LIVE = 42, SLOT_MAXLIVE = 43, SLOT_BAD = 44 };
struct Poison { int id; };        // a Counted cannot be constructed from it: the converting constructor throws TestExc(id)
struct Counted {
    static constexpr uint64_t K = 0x9e3779b1ULL, DEAD = 0xdeadc0dedeadc0deULL;
    uint64_t w[4];
    void fill(int v) { for (int i = 0; i < 4; i++) w[i] = ((uint64_t)(uint32_t)v + 1) * (K + 2 * i); }
    void born() { hz::slot_add(SLOT_CTOR, 1); long l = hz::slot_add(SLOT_LIVE, 1); if (l > hz::slot_get(SLOT_MAXLIVE)) hz::slot_set(SLOT_MAXLIVE, l); }
    explicit Counted(int v) { fill(v); born(); }
    Counted(const Poison &p) { throw TestExc(p.id); }
    Counted(const Counted &o) { int v = o.val(); fill(v < 0 ? 0 : v); if (v < 0) w[3] ^= 1; born(); }
    // a moved-from instance stays a valid object but reads as MOVED: code that goes on using an object somebody
    // else moved out of (instead of copying) is visible
    static constexpr int MOVED = 0x3ffffff0;
    Counted(Counted &&o) noexcept { int v = o.val(); fill(v < 0 ? 0 : v); if (v < 0) w[3] ^= 1; else o.fill(MOVED); born(); }
    Counted &operator=(Counted &&o) noexcept { int v = o.val(); fill(v < 0 ? 0 : v); if (v < 0) w[3] ^= 1; else if (&o != this) o.fill(MOVED); return *this; }
    Counted &operator=(const Counted &o) { int v = o.val(); fill(v < 0 ? 0 : v); if (v < 0) w[3] ^= 1; return *this; }
    ~Counted() {
        if (w[0] == DEAD) hz::slot_add(SLOT_BAD, 1);     // destroyed twice
        for (int i = 0; i < 4; i++) w[i] = DEAD;
        hz::slot_add(SLOT_DTOR, 1); hz::slot_add(SLOT_LIVE, -1);
    }
    // value, or -3 if the body is torn / destroyed
    int val() const {
        uint64_t b = w[0] / K;
        for (int i = 0; i < 4; i++) if (w[i] != b * (K + 2 * i)) return -3;
        if (b == 0) return -3;
        return (int)(uint32_t)(b - 1);
    }
};

inline void check_counted_balance(const char *where) {
    HZ_CHECK(hz::slot_get(SLOT_BAD) == 0, "%s: an instance-counted value was destroyed twice", where);
    HZ_CHECK(hz::slot_get(SLOT_CTOR) == hz::slot_get(SLOT_DTOR), "%s: %ld instance-counted values constructed but %ld destroyed", where,
             hz::slot_get(SLOT_CTOR), hz::slot_get(SLOT_DTOR));
}

} // namespace val
