// C02 - no lost, early or duplicate wake-up of a future's waiters
#include "scen_future.h"
namespace hz {
static const Info I = {
    "C02", 1, 20, 60000, true, true,
    "rapidcheck generates (program, schedule, faults); the program decodes to a value type, ONE resolver (value / exception / drop / promise destruction / "
    "completion of an async coroutine bound to the future, returning or throwing / promise moved away then resolved / bind(value)() / unhandled_exception() / promise_with_default destroyed) and 1..3 waiters on their own threads of kinds {co_await f, co_await f.has_value(), "
    "f.wait(), f.sync(), subscribe(custom awaiter), callback_await, polling ready(), force_wait() inside a coroutine, operator bool then value(), co_await cocls::parallel(f) - continuing in a new detached thread} with generated yields, waiters or resolver spawned first; spurious weak-CAS failures injected. "
    "Oracle: each waiter released exactly once, ready()==true at release, release after the resolver began, complete result observed (checksummed payload / same exception / no-value), "
    "deadlock detector (lost wake-up), ASan (released waiter touched). Non-trivial = some waiter registered during or after the resolution (classes before/overlap/after counted) and >=1 context switch; "
    "distinct = hash(decoded program, executed switch trace).",
    scen_future::class_names, 8, scen_future::counter_names, 3};
const Info &info() { return I; }
void run_case(Reader &r) { scen_future::run(r, scen_future::M_C02); }
std::string describe(Reader &r) { return scen_future::describe(scen_future::decode(r, scen_future::M_C02)); }
}
