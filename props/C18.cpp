// C18 - callback adapters fire exactly once with the right outcome
#include "common.h"
#include "values.h"

namespace c18 {

enum { A_CALLBACK_AWAIT, A_CALLBACK_AWAIT_ALLOC, A_MAKE_PROMISE, A_MAKE_PROMISE_STORAGE, A_DISCARD, A_CONV_MEMBER, A_CONV_FREE, A_CONV_PROMISE_PASSING,
       A_CALL_FN_AWAITER, A_CONV_VOID_SOURCE, A_CONV_FREE_CTX, A_COUNT };
enum { O_VALUE, O_EXC, O_DROP };
enum { T_BEFORE, T_LATER_SAME_THREAD, T_OTHER_THREAD };
struct Prog { uint8_t adapter, outcome, timing, conv_throws, yields; uint8_t rearm = 0; uint8_t declines = 0; uint8_t in_coro = 0; uint8_t refconv = 0; uint8_t counted = 0; };   // counted (callback_await forms): the awaited future carries an instance-counted value, which must still be alive when the callback looks at it
//   // refconv (value-returning converters with a source argument): the converter returns a REFERENCE (outer future<int &>)   // in_coro (callback_await forms): the registration is made from inside a running coroutine   // declines (promise-passing converter): it returns without touching the promise it was handed   // rearm (call_fn_future_awaiter): the handler starts a second operation on the same awaiter

inline Prog decode(hz::Reader &r) {
    Prog p; p.adapter = (uint8_t)r.mod(A_COUNT); p.outcome = (uint8_t)r.mod(3); p.timing = (uint8_t)r.mod(3); p.conv_throws = (uint8_t)(r.mod(4) == 0); p.yields = (uint8_t)r.mod(4);
    p.rearm = (uint8_t)(r.mod(4) != 0 && p.adapter == A_CALL_FN_AWAITER);
    p.declines = (uint8_t)(r.mod(2) == 1 && p.adapter == A_CONV_PROMISE_PASSING);
    p.in_coro = (uint8_t)(r.mod(2) == 1 && (p.adapter == A_CALLBACK_AWAIT || p.adapter == A_CALLBACK_AWAIT_ALLOC));
    p.counted = 0;
    p.refconv = (uint8_t)(r.mod(2) == 1 && (p.adapter == A_CONV_MEMBER || p.adapter == A_CONV_FREE || p.adapter == A_CONV_FREE_CTX));
    p.counted = (uint8_t)(r.mod(2) == 1 && !p.in_coro && (p.adapter == A_CALLBACK_AWAIT || p.adapter == A_CALLBACK_AWAIT_ALLOC));
    return p;
}
inline std::string describe(const Prog &p) {
    static const char *an[] = {"callback_await", "callback_await_alloc(tracking storage)", "make_promise(fn)", "make_promise(fn, storage)", "discard", "future_conv<member fn>", "future_conv<free fn>",
                               "future_conv<promise-passing member fn>", "call_fn_future_awaiter", "future_conv<member fn, void source>", "future_conv<free fn with context>"};
    static const char *on[] = {"value", "exception", "drop"};
    static const char *tn[] = {"resolved before registration", "resolved later on the same thread", "resolved concurrently on another thread"};
    hz::Desc d; d << an[p.adapter] << " x " << on[p.outcome] << " x " << tn[p.timing] << (p.conv_throws ? " (converter throws)" : "") << ", yield*" << (unsigned)p.yields;
    if (p.in_coro) d << "; registered from inside a running coroutine (the helper starts after the registering expression has ended: it owns copies of the arguments)";
    if (p.counted) d << "; the awaited future carries an instance-counted value (alive while the callback looks at it, destroyed afterwards)";
    if (p.refconv) d << "; the converter returns a reference to an object it selects (outer future<int &>: it must refer to exactly that object)";
    if (p.declines) d << "; the converter declines: it returns without resolving or moving the promise (the outer future then ends as a broken promise)";
    if (p.rearm) d << "; the completion handler re-arms the awaiter with a second operation (resolved with a value the same way) and keeps working for a while";
    return d.s;
}

struct TrackStorage {
    void *alloc(std::size_t sz) { hz::slot_add(30, 1); return std::malloc(sz); }
    static void dealloc(void *p, std::size_t) { hz::slot_add(31, 1); std::free(p); }
};

struct World {
    Prog p;
    cocls::promise<int> kept; cocls::promise<void> vkept; cocls::promise<val::Counted> ckept;
    std::atomic<int> promise_available{0};
    std::atomic<int> done{0};
    int calls = 0; int code = -100;
    // second operation started from inside the first completion (re-armed call_fn_future_awaiter)
    cocls::promise<int> kept2; std::atomic<int> promise2_available{0};
    int calls2 = 0; int code2 = -100; std::function<void()> rearm_fn;
    bool conv_throws = false;

    template<class F> static int guarded(F &&fn) {
        try { return fn(); }
        catch (const val::TestExc &e) { return 1000 + e.id; }
        catch (const cocls::await_canceled_exception &) { return -1; }
        catch (const cocls::value_not_ready_exception &) { return -2; }
        catch (...) { return -4; }
    }
    void resolve_int(cocls::promise<int> &pr) {
        if (p.outcome == O_VALUE) pr(42); else if (p.outcome == O_EXC) pr(std::make_exception_ptr(val::TestExc(5))); else pr(cocls::drop);
    }
    void resolve_void(cocls::promise<void> &pr) {
        if (p.outcome == O_VALUE) pr(); else if (p.outcome == O_EXC) pr(std::make_exception_ptr(val::TestExc(5))); else pr(cocls::drop);
    }
    void resolve_counted(cocls::promise<val::Counted> &pr) {
        if (p.outcome == O_VALUE) pr(val::Counted(42)); else if (p.outcome == O_EXC) pr(std::make_exception_ptr(val::TestExc(5))); else pr(cocls::drop);
    }
    cocls::future<val::Counted> csource() {
        return cocls::future<val::Counted>([this](cocls::promise<val::Counted> pr) {
            if (p.timing == T_BEFORE) resolve_counted(pr);
            else { ckept = std::move(pr); promise_available.store(1, std::memory_order_release); }
        });
    }
    // the awaited operation
    cocls::future<int> source() {
        return cocls::future<int>([this](cocls::promise<int> pr) {
            if (p.timing == T_BEFORE) resolve_int(pr);
            else { kept = std::move(pr); promise_available.store(1, std::memory_order_release); }
        });
    }
    cocls::future<void> vsource() {
        return cocls::future<void>([this](cocls::promise<void> pr) {
            if (p.timing == T_BEFORE) resolve_void(pr);
            else { vkept = std::move(pr); promise_available.store(1, std::memory_order_release); }
        });
    }
    void fired(int c) { calls++; code = c; done.store(1, std::memory_order_release); }

    // converters returning a reference: they select an object that outlives the conversion
    int table[4] = {0, 0, 43, 0};
    int &conv_member_ref(int &src) { if (conv_throws) throw val::TestExc(9); return table[src % 4]; }
    // converters
    int conv_member(int &src) { if (conv_throws) throw val::TestExc(9); return src + 1; }
    cocls::suspend_point<void> conv_passing(int &src, cocls::promise<int> &prom) { if (conv_throws) throw val::TestExc(9); if (p.declines) return {}; return prom(src + 1); }
    int conv_void() { if (conv_throws) throw val::TestExc(9); return 43; }
    cocls::future<int> source2() {
        return cocls::future<int>([this](cocls::promise<int> pr) {
            if (p.timing == T_BEFORE) pr(84);
            else { kept2 = std::move(pr); promise2_available.store(1, std::memory_order_release); }
        });
    }
    cocls::suspend_point<void> on_done(cocls::future<int> &f) noexcept {
        int c = guarded([&] { return f.value(); });
        if (p.rearm && calls == 0) {
            fired(c);                    // the first operation's outcome has been consumed; now start the next one
            rearm_fn();
            hz::upoints(p.yields);       // still inside the first completion while the second operation may complete elsewhere
            return {};
        }
        if (p.rearm) { calls2++; code2 = c; hz::upoints(1); int again = guarded([&] { return f.value(); }); if (again != c) code2 = -7; return {}; }
        fired(c); return {};
    }
};
inline int conv_free(int &src) { return src + 1; }
inline int g_table[4] = {0, 0, 43, 0};
inline int &conv_free_ref(int &src) { return g_table[src % 4]; }
inline int &conv_free_ctx_ref(int &src, World *w) { if (w->conv_throws) throw val::TestExc(9); return w->table[src % 4]; }
inline int conv_free_ctx(int &src, World *w) { if (w->conv_throws) throw val::TestExc(9); return src + 1; }

// callback_await called inside a running coroutine, with a temporary, stateful function object as the argument the
// awaitable is obtained from
template<class CB>
cocls::async<void> register_in_coro(World *pw, TrackStorage *stor, bool with_alloc, CB cb) {
    if (with_alloc) cocls::callback_await_alloc<TrackStorage, cocls::future<int>>(*stor, cb, [pw, tag = 12345L] { if (tag != 12345L) hz::fail("the function object handed to callback_await was destroyed before the helper used it"); return pw->source(); });
    // (the callback is passed as an rvalue: an lvalue would be stored by reference, and this coroutine's frame - which
    // holds it - is gone when the helper runs)
    else cocls::callback_await<cocls::future<int>>(std::move(cb), [pw, tag = 12345L] { if (tag != 12345L) hz::fail("the function object handed to callback_await was destroyed before the helper used it"); return pw->source(); });
    co_return;
}

inline void run(hz::Reader &r) {
    Prog p = decode(r);
    bool conv = p.adapter == A_CONV_MEMBER || p.adapter == A_CONV_FREE || p.adapter == A_CONV_PROMISE_PASSING || p.adapter == A_CONV_VOID_SOURCE || p.adapter == A_CONV_FREE_CTX;
    bool can_throw = conv && p.adapter != A_CONV_FREE;
    int expect = p.outcome == O_VALUE ? 42 : p.outcome == O_EXC ? 1005 : -1;
    if (conv && p.outcome == O_VALUE) expect = (can_throw && p.conv_throws) ? 1009 : p.declines ? -1 : 43;
    {
        World w; w.p = p; w.conv_throws = p.conv_throws;
        TrackStorage stor;
        std::thread resolver;
        bool make_promise_kind = p.adapter == A_MAKE_PROMISE || p.adapter == A_MAKE_PROMISE_STORAGE;
        if (p.timing == T_OTHER_THREAD) resolver = std::thread([&w, &p] {
            while (!w.promise_available.load(std::memory_order_acquire)) vrt::yield();
            hz::upoints(p.yields);
            if (p.adapter == A_CONV_VOID_SOURCE) w.resolve_void(w.vkept); else if (p.counted) w.resolve_counted(w.ckept); else w.resolve_int(w.kept);
        });
        // the second operation is completed by a thread of its own, so that its completion can overlap the tail of the first one
        std::thread resolver2;
        if (p.rearm && p.timing != T_BEFORE) resolver2 = std::thread([&w, &p] {
            while (!w.promise2_available.load(std::memory_order_acquire)) vrt::yield();
            hz::upoints(p.yields & 1);
            w.kept2(84);
        });
        // objects that must outlive the completion
        cocls::future_conv<&World::conv_member> cv_member(&w);
        cocls::future_conv<&conv_free> cv_free;
        cocls::future_conv<&World::conv_passing> cv_passing(&w);
        cocls::future_conv<&World::conv_void> cv_void(&w);
        cocls::future_conv<&conv_free_ctx> cv_free_ctx(&w);
        cocls::future_conv<&World::conv_member_ref> cv_member_ref(&w);
        cocls::future_conv<&conv_free_ref> cv_free_ref;
        cocls::future_conv<&conv_free_ctx_ref> cv_free_ctx_ref(&w);
        std::unique_ptr<cocls::future<int &>> out_ref; const int *ref_expect = nullptr;
        cocls::call_fn_future_awaiter<&World::on_done> cfa(w);
        std::unique_ptr<cocls::future<int>> out;
        World *pw = &w;
        w.rearm_fn = [pw, &cfa] { cfa << [pw] { return pw->source2(); }; };
        auto cb = [pw](cocls::await_result<int> res) { pw->fired(World::guarded([&] { return res.get(); })); };
        // (-3: the value was already destroyed - or never completely constructed - when the callback looked at it)
        auto ccb = [pw](cocls::await_result<val::Counted> res) { pw->fired(World::guarded([&] { return res.get().val(); })); };
        switch (p.adapter) {
            case A_CALLBACK_AWAIT: if (p.counted) { cocls::callback_await<cocls::future<val::Counted>>(ccb, [pw] { return pw->csource(); }); break; } if (p.in_coro) { register_in_coro(pw, &stor, false, cb).join(); break; } cocls::callback_await<cocls::future<int>>(cb, [pw] { return pw->source(); }); break;
            case A_CALLBACK_AWAIT_ALLOC: if (p.counted) { cocls::callback_await_alloc<TrackStorage, cocls::future<val::Counted>>(stor, ccb, [pw] { return pw->csource(); }); break; } if (p.in_coro) { register_in_coro(pw, &stor, true, cb).join(); break; } cocls::callback_await_alloc<TrackStorage, cocls::future<int>>(stor, cb, [pw] { return pw->source(); }); break;
            case A_MAKE_PROMISE: case A_MAKE_PROMISE_STORAGE: {
                auto fn = [pw](cocls::future<int> &f) { pw->fired(World::guarded([&] { return f.value(); })); };
                // (rvalue: the helper then owns a copy of the callback; an lvalue would be stored by reference)
                cocls::promise<int> pr = p.adapter == A_MAKE_PROMISE ? cocls::make_promise<int>(std::move(fn)) : cocls::make_promise<int>(std::move(fn), stor);
                if (p.timing == T_OTHER_THREAD) { w.kept = std::move(pr); w.promise_available.store(1, std::memory_order_release); }
                else if (p.timing == T_BEFORE && p.outcome == O_DROP) { /* promise destroyed unresolved at the end of this block */ }
                else w.resolve_int(pr);
            } break;
            case A_DISCARD: cocls::discard([pw] { return pw->source(); }); break;
            case A_CONV_MEMBER: if (p.refconv) { ref_expect = &w.table[2]; out_ref.reset(new cocls::future<int &>(cv_member_ref << [pw] { return pw->source(); })); break; } out.reset(new cocls::future<int>(cv_member << [pw] { return pw->source(); })); break;
            case A_CONV_FREE: if (p.refconv) { ref_expect = &g_table[2]; out_ref.reset(new cocls::future<int &>(cv_free_ref << [pw] { return pw->source(); })); break; } out.reset(new cocls::future<int>(cv_free << [pw] { return pw->source(); })); break;
            case A_CONV_PROMISE_PASSING: out.reset(new cocls::future<int>(cv_passing << [pw] { return pw->source(); })); break;
            case A_CONV_VOID_SOURCE: out.reset(new cocls::future<int>(cv_void << [pw] { return pw->vsource(); })); break;
            case A_CONV_FREE_CTX: if (p.refconv) { ref_expect = &w.table[2]; out_ref.reset(new cocls::future<int &>(cv_free_ctx_ref << [pw] { return pw->source(); })); break; } out.reset(new cocls::future<int>(cv_free_ctx << [pw] { return pw->source(); })); break;
            default: cfa << [pw] { return pw->source(); }; break;
        }
        hz::upoints(p.yields);
        if (p.timing == T_LATER_SAME_THREAD && !make_promise_kind) {
            if (p.adapter == A_CONV_VOID_SOURCE) w.resolve_void(w.vkept); else if (p.counted) w.resolve_counted(w.ckept); else w.resolve_int(w.kept);
        }
        if (resolver.joinable()) resolver.join();
        if (resolver2.joinable()) resolver2.join();
        // ---- oracle ----
        if (out) {
            HZ_CHECK(out->ready(), "converter's outer future is still pending after the source was resolved");
            int c = World::guarded([&] { return out->value(); });
            HZ_CHECK(c == expect, "converter delivered %d to the outer future, expected %d (>=0 value, -1 broken promise, 1005 source exception, 1009 converter exception)", c, expect);
        } else if (out_ref) {
            HZ_CHECK(out_ref->ready(), "converter's outer future is still pending after the source was resolved");
            const int *got_addr = nullptr;
            int c = World::guarded([&] { int &x = out_ref->value(); got_addr = &x; return 43; });
            HZ_CHECK(c == expect, "reference-returning converter delivered %d to the outer future, expected %d (43 value, -1 broken promise, 1005 source exception, 1009 converter exception)", c, expect);
            if (c == 43) HZ_CHECK(got_addr == ref_expect, "the outer future<int &> refers to %p, the converter returned a reference to %p (a copy instead of the selected object)", (const void *)got_addr, (const void *)ref_expect);
            if (c == 43) HZ_CHECK(*got_addr == 43, "the object the outer future refers to holds %d, the selected object holds 43", *got_addr);
        } else if (p.adapter == A_DISCARD) {
            // no callback: completion is observable only through the release of the helper (allocation balance)
        } else {
            HZ_CHECK(w.calls == 1, "completion ran %d times (exactly once expected)", w.calls);
            HZ_CHECK(w.code == expect, "completion saw %d, the awaited operation produced %d", w.code, expect);
            if (p.rearm) {
                HZ_CHECK(w.calls2 == 1, "the completion of the second operation (awaiter re-armed from inside the first completion) ran %d times", w.calls2);
                HZ_CHECK(w.code2 == 84, "the completion of the second operation saw %d, that operation produced 84 (-1 broken promise, -7 result changed while the handler was looking at it)", w.code2);
            }
        }
        if (p.adapter == A_CALLBACK_AWAIT_ALLOC || p.adapter == A_MAKE_PROMISE_STORAGE) {
            HZ_CHECK(hz::slot_get(30) == 1, "helper block was allocated %ld times from the supplied storage", hz::slot_get(30));
            HZ_CHECK(hz::slot_get(31) == 1, "helper block from the supplied storage was released %ld times (exactly once expected)", hz::slot_get(31));
        }
    }
    if (p.counted) val::check_counted_balance("end of case");
    hz::set_class(p.adapter); hz::count(0, p.refconv); hz::count(1, p.counted);
    hz::set_nontrivial(p.timing == T_OTHER_THREAD ? vrt::stats().switches > 0 : true);
}

static const char *const class_names[] = {"callback_await", "callback_await_alloc", "make_promise", "make_promise+storage", "discard", "conv:member", "conv:free", "conv:promise-passing", "call_fn_future_awaiter", "conv:void-source", "conv:free+context"};
static const char *const counter_names[] = {"converters_returning_a_reference", "callback_await_of_an_instance_counted_value"};
} // namespace c18

namespace hz {
static const Info I = {
    "C18", 1, 15, 100000, true, true,
    "rapidcheck generates (program, schedule, faults): adapter in {callback_await, callback_await_alloc with a tracking storage, make_promise(fn), make_promise(fn, storage), discard, future_conv (member / free / free+context / promise-passing / void-source forms, "
    "converter optionally throwing), call_fn_future_awaiter} x outcome {value, exception, drop} x timing {resolved before registration, later on the same thread, concurrently on another thread of the virtual runtime}. "
    "Oracle: the completion ran exactly once with exactly that outcome (value / same exception / broken promise), converters deliver value+1 or the source's or the converter's exception to the outer future, the helper block of the supplied storage is "
    "allocated and released exactly once, global allocation balance 0, ASan, deadlock detector. Non-trivial = every sequential case, concurrent cases with >=1 context switch; distinct = hash(decoded program, executed switch trace).",
    c18::class_names, 11, c18::counter_names, 2};
const Info &info() { return I; }
void run_case(Reader &r) { c18::run(r); }
std::string describe(Reader &r) { return c18::describe(c18::decode(r)); }
}
