// scen_future.h - future/promise scenario shared by C01 (exactly one winner), C02 (wake-ups)
// and C03 (TSan variant).
#pragma once
#include "common.h"
#include "values.h"

namespace scen_future {

enum Mode { M_C01, M_C02, M_C03 };

// resolver actions
enum { A_VALUE, A_EXC, A_DROP, A_NOTHING, A_ASYNC_VALUE, A_ASYNC_THROW, A_COUNT,
       // extended forms (chosen by a trailing program byte, so that older replay files keep their meaning)
       A_MOVE_THEN_VALUE = A_COUNT,   // promise<T> mine(std::move(shared)); mine(value)       - the move is itself a claim
       A_MOVE_ASSIGN_DTOR,            // promise<T> mine; mine = std::move(shared); ~mine      - resolves to no-value if the move got it
       A_BIND,                        // auto fn = shared.bind(value); fn()
       A_UNHANDLED,                   // catch (...) { shared.unhandled_exception(); }
       A_DEFAULT_DTOR,                // promise_with_default<T> d(std::move(shared), dflt); ~d - resolves to the default value
       A_BIND_DROP,                   // { auto fn = shared.bind(value); }  - the bound object dies uncalled: no-value if the bind obtained the promise (not observable from outside)
       A_ALL };
// waiter kinds
enum { W_COAWAIT, W_HASVALUE, W_WAIT, W_SYNC, W_SUBSCRIBE, W_CALLBACK_AWAIT, W_POLL, W_FORCE_WAIT_IN_CORO, W_OPERATOR_BOOL, W_COUNT,
       W_PARALLEL = W_COUNT,          // co_await cocls::parallel(f): the coroutine continues in a new detached thread (chosen by a trailing byte)
       W_ALL };

struct Res { uint8_t action, yields; };
struct Wai { uint8_t kind, yields; };
struct Prog {
    uint8_t vt;                    // 0 int, 1 void, 2 move-only, 3 int&, 4 Counted
    std::vector<Res> res;
    std::vector<Wai> wai;
    uint8_t moves;                 // promise moved k times before use
    bool resolvers_first;
    bool assign_over = false;      // before use the promise is move-ASSIGNED onto a promise that still owns another, unresolved future
    uint8_t factory = 0;           // (C02, C03) the future is born resolved: 1 future<T>::set_value(v), 2 set_exception(e), 3 set_not_value(); no promise exists
};

inline Prog decode(hz::Reader &r, Mode m) {
    Prog p;
    p.vt = (uint8_t)r.mod(5);
    unsigned nr, nw;
    if (m == M_C01) { nr = 2 + r.mod(3); nw = r.mod(3); }
    else if (m == M_C02) { nr = 1; nw = 1 + r.mod(3); }
    else { nr = 1 + r.mod(2); nw = 1 + r.mod(3); }
    for (unsigned i = 0; i < nr; i++) {
        Res x; x.action = (uint8_t)r.mod(A_COUNT); x.yields = (uint8_t)r.mod(4);
        p.res.push_back(x);
    }
    for (unsigned i = 0; i < nw; i++) {
        Wai x; x.kind = (uint8_t)r.mod(W_COUNT); x.yields = (uint8_t)r.mod(4);
        p.wai.push_back(x);
    }
    p.moves = (uint8_t)r.mod(3);
    p.resolvers_first = r.flag();
    p.assign_over = r.mod(3) == 1;
    for (auto &x : p.res) { unsigned e = r.mod(8); if (e >= 3) x.action = (uint8_t)(A_MOVE_THEN_VALUE + (e - 3)); }
    for (auto &x : p.wai) { unsigned e = r.mod(8); if (e == 7) x.kind = W_PARALLEL; }
    { unsigned e = r.mod(8); if (m != M_C01 && e >= 5) { p.factory = (uint8_t)(e - 4); p.moves = 0; p.assign_over = false; for (auto &x : p.res) x.action = A_NOTHING; } }
    { unsigned e = r.mod(4); if (e == 3 && !p.factory) for (auto &x : p.res) if (x.action == A_BIND) x.action = A_BIND_DROP; }
    return p;
}

inline std::string describe(const Prog &p) {
    static const char *vt[] = {"int", "void", "move-only", "int&", "Counted"};
    static const char *act[] = {"value", "exception", "drop", "nothing", "async completes with value", "async throws",
        "move the promise into a local, then value", "move-assign the promise into a local and destroy it", "bind(value) then call", "unhandled_exception() in a catch block", "move into promise_with_default and destroy it", "bind(value), the bound object is destroyed without being called"};
    static const char *wk[] = {"co_await f", "co_await f.has_value()", "f.wait()", "f.sync()", "subscribe(custom awaiter)", "callback_await", "poll ready()", "force_wait() inside a coroutine", "if (f) ... *f (operator bool / operator*)", "co_await cocls::parallel(f)"};
    hz::Desc d;
    if (p.factory) d << "[the future is born resolved: " << (p.factory == 1 ? "future<T>::set_value(v)" : p.factory == 2 ? "future<T>::set_exception(e)" : "future<T>::set_not_value()") << ", there is no promise] ";
    d << "future<" << vt[p.vt] << ">, promise moved " << (unsigned)p.moves << "x" << (p.assign_over ? " and move-assigned onto a promise that owned another pending future" : "") << ", " << (p.resolvers_first ? "resolvers spawned first" : "waiters spawned first") << "; resolvers:";
    for (size_t i = 0; i < p.res.size(); i++) d << " R" << (unsigned)i << "[yield*" << (unsigned)p.res[i].yields << ", " << act[p.res[i].action] << "]";
    d << "; waiters:";
    for (size_t i = 0; i < p.wai.size(); i++) d << " W" << (unsigned)i << "[yield*" << (unsigned)p.wai[i].yields << ", " << wk[p.wai[i].kind] << "]";
    d << "; owner destroys the promise after the resolvers";
    return d.s;
}

// observation codes: >=0 value, 1000+id exception, -1 no value (await_canceled), -2 value_not_ready, -3 torn value, -4 other
template<int VT> struct Tr;
template<> struct Tr<0> { using T = int; static int dec(const int &v) { return v; } };
template<> struct Tr<1> { using T = void; };
template<> struct Tr<2> { using T = val::MoveOnly; static int dec(const val::MoveOnly &v) { return v.id; } };
template<> struct Tr<3> { using T = int &; static int dec(const int &v) { return v; } };
template<> struct Tr<4> { using T = val::Counted; static int dec(const val::Counted &v) { return v.val(); } };

struct WRec {
    int kind = 0;
    int resumes = 0;
    int code = -100;
    int t_begin = 0, t_susp = 0, t_resume = 0;
    bool ready_at_resume = true;
    bool suspended = false;
};
struct RRec { int action = 0; int t_begin = 0, t_end = 0; int won = -1; };

template<int VT>
struct Ctx {
    using T = typename Tr<VT>::T;
    cocls::future<T> f;
    std::optional<cocls::promise<T>> prom;
    int slots[8];                   // referents for int&
    std::vector<WRec> w;
    std::vector<RRec> r;
    const Prog *p = nullptr;

    template<class F> static int guarded(F &&fn) {
        try { return fn(); }
        catch (const val::TestExc &e) { return 1000 + e.id; }
        catch (const cocls::await_canceled_exception &) { return -1; }
        catch (const cocls::value_not_ready_exception &) { return -2; }
        catch (...) { return -4; }
    }
    int observe() {
        return guarded([&]() -> int {
            if constexpr (VT == 1) { f.value(); return 0; }
            else return Tr<VT>::dec(f.value());
        });
    }
    // resolver payload for index i
    static int value_of(int i) { return 10 + i; }
    bool call_value(int i) { return call_value_on(*prom, i); }
    bool call_value_on(cocls::promise<T> &pr, int i) {
        if constexpr (VT == 0) return pr(value_of(i));
        else if constexpr (VT == 1) return pr();
        else if constexpr (VT == 2) return pr(val::MoveOnly(value_of(i)));
        else if constexpr (VT == 3) return pr(slots[i]);
        else if (i & 1) {
            // resolved from a variable of the caller (an lvalue): the future takes a copy, the variable stays intact
            val::Counted x(value_of(i));
            bool r = pr(x);
            if (x.val() != value_of(i)) hz::fail("promise(lvalue) changed the caller's variable: it reads %d after supplying %d (moved from instead of copied)", x.val(), value_of(i));
            return r;
        }
        else return pr(val::Counted(value_of(i)));
    }
    bool call_bound(int i) {
        if constexpr (VT == 0) { auto fn = prom->bind(value_of(i)); return fn(); }
        else if constexpr (VT == 1) { auto fn = prom->bind(); return fn(); }
        else if constexpr (VT == 2) { auto fn = prom->bind(val::MoveOnly(value_of(i))); return fn(); }
        else if constexpr (VT == 3) return call_value(i);          // bind() stores decayed copies: not meaningful for a reference result
        else { auto fn = prom->bind(val::Counted(value_of(i))); return fn(); }
    }
    // the resolution is prepared with bind() but never performed: the promise inside the bound object is destroyed unresolved
    bool bound_dropped(int i) {
        if constexpr (VT == 0) { auto fn = prom->bind(value_of(i)); (void)fn; }
        else if constexpr (VT == 1) { auto fn = prom->bind(); (void)fn; }
        else if constexpr (VT == 2) { auto fn = prom->bind(val::MoveOnly(value_of(i))); (void)fn; }
        else if constexpr (VT == 3) { auto fn = prom->bind(slots[i]); (void)fn; }
        else { auto fn = prom->bind(val::Counted(value_of(i))); (void)fn; }
        return true;
    }
    bool default_dtor(int i) {
        if constexpr (VT == 0 || VT == 2 || VT == 4) {
            cocls::promise_with_default<T> d(std::move(*prom), 200 + i);
            return (bool)d;                   // nobody else can reach d: its destructor resolves iff the move obtained the future
        } else return call_value(i);
    }
    int expected_code(int action, int i) const {
        switch (action) {
            case A_VALUE: case A_ASYNC_VALUE: case A_MOVE_THEN_VALUE: case A_BIND: return VT == 1 ? 0 : value_of(i);
            case A_EXC: case A_ASYNC_THROW: case A_UNHANDLED: return 1000 + i;
            case A_DEFAULT_DTOR: return (VT == 0 || VT == 2 || VT == 4) ? 200 + i : (VT == 1 ? 0 : value_of(i));
            default: return -1;         // drop, nothing, move-assign + destruction
        }
    }
};

// producer coroutine bound to the promise by start(promise)
template<int VT>
cocls::async<typename Tr<VT>::T> producer(Ctx<VT> &c, int i, bool do_throw) {
    hz::upoint();
    if (do_throw) throw val::TestExc(i);
    if constexpr (VT == 0) co_return Ctx<VT>::value_of(i);
    else if constexpr (VT == 1) co_return;
    else if constexpr (VT == 2) co_return val::MoveOnly(Ctx<VT>::value_of(i));
    else if constexpr (VT == 3) co_return c.slots[i];
    else co_return val::Counted(Ctx<VT>::value_of(i));
}

template<int VT>
void resolver_thread(Ctx<VT> &c, int i) {
    RRec &r = c.r[i];
    hz::upoints(c.p->res[i].yields);
    r.t_begin = hz::tick();
    switch (r.action) {
        case A_VALUE: r.won = c.call_value(i); break;
        case A_EXC: r.won = (bool)(*c.prom)(std::make_exception_ptr(val::TestExc(i))); break;
        case A_DROP: r.won = (bool)(*c.prom)(cocls::drop); break;
        case A_NOTHING: break;
        case A_MOVE_THEN_VALUE: { cocls::promise<typename Tr<VT>::T> mine(std::move(*c.prom)); hz::upoint(); r.won = c.call_value_on(mine, i); } break;
        case A_MOVE_ASSIGN_DTOR: { cocls::promise<typename Tr<VT>::T> mine; mine = std::move(*c.prom); r.won = (bool)mine; hz::upoint(); } break;
        case A_BIND: r.won = c.call_bound(i); break;
        case A_BIND_DROP: c.bound_dropped(i); r.won = -2; break;       // (-2: whether the bound object obtained the promise cannot be told from outside)
        case A_UNHANDLED: try { throw val::TestExc(i); } catch (...) { r.won = c.prom->unhandled_exception(); } break;
        case A_DEFAULT_DTOR: r.won = c.default_dtor(i); break;
        case A_ASYNC_VALUE: case A_ASYNC_THROW: {
            auto co = producer<VT>(c, i, r.action == A_ASYNC_THROW);
            r.won = (bool)co.start(*c.prom);
            // a coroutine whose start() lost the claim stays unstarted and is destroyed here
        } break;
    }
    r.t_end = hz::tick();
}

// wrapper around the library's awaiter that records the call boundaries
template<int VT, class Inner>
struct FutAw {
    Inner inner; WRec *w; Ctx<VT> *c;
    bool await_ready() { w->t_begin = hz::tick(); return inner.await_ready(); }
    bool await_suspend(std::coroutine_handle<> h) {
        WRec *q = w;
        bool r = inner.await_suspend(h);
        if (r) { q->suspended = true; q->t_susp = hz::tick(); }
        return r;
    }
    decltype(auto) await_resume() {
        w->resumes++; w->t_resume = hz::tick(); w->ready_at_resume = c->f.ready();
        return inner.await_resume();
    }
};

template<int VT>
cocls::async<void> waiter_coawait(Ctx<VT> &c, WRec &w) {
    FutAw<VT, cocls::co_awaiter<cocls::future<typename Tr<VT>::T>>> aw{c.f.operator co_await(), &w, &c};
    int code = -100;
    try {
        if constexpr (VT == 1) { co_await aw; code = 0; }
        else { decltype(auto) v = co_await aw; code = Tr<VT>::dec(v); }
    }
    catch (const val::TestExc &e) { code = 1000 + e.id; }
    catch (const cocls::await_canceled_exception &) { code = -1; }
    catch (const cocls::value_not_ready_exception &) { code = -2; }
    w.code = code;
}

template<int VT>
cocls::async<void> waiter_hasvalue(Ctx<VT> &c, WRec &w) {
    using AB = typename cocls::future<typename Tr<VT>::T>::awaitable_bool;
    FutAw<VT, AB> aw{c.f.has_value(), &w, &c};
    bool hv = co_await aw;
    int code = c.observe();
    if (!hv && code != -1) code = -5;              // has_value()==false but a value/exception is there
    if (hv && code == -1) code = -6;               // has_value()==true but nothing is there
    w.code = code;
}

// co_await cocls::parallel(f): a waiter that had to suspend continues in a brand-new detached thread (resume.h)
template<int VT>
cocls::async<void> waiter_parallel(Ctx<VT> &c, WRec &w) {
    using P = cocls::parallel<cocls::co_awaiter<cocls::future<typename Tr<VT>::T>>>;
    FutAw<VT, P> aw{P(c.f), &w, &c};
    int code = -100;
    try {
        if constexpr (VT == 1) { co_await aw; code = 0; }
        else { decltype(auto) v = co_await aw; code = Tr<VT>::dec(v); }
    }
    catch (const val::TestExc &e) { code = 1000 + e.id; }
    catch (const cocls::await_canceled_exception &) { code = -1; }
    catch (const cocls::value_not_ready_exception &) { code = -2; }
    w.code = code;
}

// a coroutine that blocks its thread on the future (force_wait: the documented way to do that inside a coroutine)
template<int VT>
cocls::async<void> waiter_force(Ctx<VT> &c, WRec &w) {
    w.t_begin = hz::tick();
    w.code = Ctx<VT>::guarded([&]() -> int {
        if constexpr (VT == 1) { c.f.force_wait(); return 0; }
        else return Tr<VT>::dec(c.f.force_wait());
    });
    w.resumes++; w.t_resume = hz::tick(); w.ready_at_resume = c.f.ready();
    co_return;
}

template<int VT>
struct CbAw : cocls::awaiter {
    WRec *w; Ctx<VT> *c;
    std::atomic<int> fired{0};
    CbAw(WRec *w_, Ctx<VT> *c_) : w(w_), c(c_) { set_resume_fn(&fn); }
    static cocls::suspend_point<void> fn(cocls::awaiter *me, void *) noexcept {
        auto *s = static_cast<CbAw *>(me);
        s->w->resumes++; s->w->t_resume = hz::tick(); s->w->ready_at_resume = s->c->f.ready();
        s->w->code = s->c->observe();
        s->fired.store(1, std::memory_order_release);
        return {};
    }
};

template<int VT>
void waiter_thread(Ctx<VT> &c, int i) {
    using T = typename Tr<VT>::T;
    WRec &w = c.w[i];
    hz::upoints(c.p->wai[i].yields);
    switch (w.kind) {
        case W_COAWAIT: { cocls::future<void> done = waiter_coawait<VT>(c, w).start(); done.wait(); } break;
        case W_HASVALUE: { cocls::future<void> done = waiter_hasvalue<VT>(c, w).start(); done.wait(); } break;
        case W_WAIT:
            w.t_begin = hz::tick();
            w.code = Ctx<VT>::guarded([&]() -> int {
                if constexpr (VT == 1) { c.f.wait(); return 0; }
                else return Tr<VT>::dec(c.f.wait());
            });
            w.resumes++; w.t_resume = hz::tick(); w.ready_at_resume = c.f.ready();
            break;
        case W_SYNC:
            w.t_begin = hz::tick();
            c.f.sync();
            w.resumes++; w.t_resume = hz::tick(); w.ready_at_resume = c.f.ready();
            w.code = c.observe();
            break;
        case W_SUBSCRIBE: {
            CbAw<VT> a(&w, &c);
            w.t_begin = hz::tick();
            bool reg = c.f.operator co_await().subscribe(&a);
            if (!reg) {
                w.resumes++; w.t_resume = hz::tick(); w.ready_at_resume = c.f.ready();
                w.code = c.observe();
            } else {
                w.suspended = true; w.t_susp = hz::tick();
                while (!a.fired.load(std::memory_order_acquire)) vrt::yield();
            }
        } break;
        case W_CALLBACK_AWAIT: {
            std::atomic<int> fired{0};
            using RV = std::decay_t<cocls::awaiter_return_value<cocls::future<T> &>>;
            w.t_begin = hz::tick();
            auto *pw = &w; auto *pc = &c; auto *pf = &fired;
            cocls::callback_await<cocls::future<T> &>([pw, pc, pf](cocls::await_result<RV> r) {
                pw->resumes++; pw->t_resume = hz::tick(); pw->ready_at_resume = pc->f.ready();
                pw->code = Ctx<VT>::guarded([&]() -> int {
                    if constexpr (VT == 1) { r.get(); return 0; }
                    else return Tr<VT>::dec(r.get());
                });
                pf->store(1, std::memory_order_release);
            }, c.f);
            while (!fired.load(std::memory_order_acquire)) vrt::yield();
        } break;
        case W_FORCE_WAIT_IN_CORO: { cocls::future<void> done = waiter_force<VT>(c, w).start(); done.wait(); } break;
        case W_PARALLEL: { cocls::future<void> done = waiter_parallel<VT>(c, w).start(); done.wait(); } break;
        case W_OPERATOR_BOOL: {
            w.t_begin = hz::tick();
            bool hv = (bool)c.f;                 // waits, then reports whether there is a value (no exception thrown)
            w.resumes++; w.t_resume = hz::tick(); w.ready_at_resume = c.f.ready();
            int code = c.observe();
            if (hv != (code >= 0)) code = hv ? -6 : -5;      // operator bool is true for the value AND the exception state, false for no-value
            w.code = code;
        } break;
        default: {  // W_POLL
            w.t_begin = hz::tick();
            while (!c.f.ready()) vrt::yield();
            w.resumes++; w.t_resume = hz::tick(); w.ready_at_resume = true;
            w.code = c.observe();
        } break;
    }
}

template<int VT>
void run_t(const Prog &p, Mode mode) {
    unsigned overlapped = 0;
    unsigned cls_mask = 0;
    {
        Ctx<VT> c;
        c.p = &p;
        for (int i = 0; i < 8; i++) c.slots[i] = Ctx<VT>::value_of(i);
        c.w.resize(p.wai.size()); c.r.resize(p.res.size());
        for (size_t i = 0; i < p.wai.size(); i++) c.w[i].kind = p.wai[i].kind;
        for (size_t i = 0; i < p.res.size(); i++) c.r[i].action = p.res[i].action;
        if (p.factory) {
            // a future that is born resolved (documented factories): constructed in place from the factory's result
            if (p.factory == 1) {
                if constexpr (VT == 0) c.f << [] { return cocls::future<int>::set_value(Ctx<VT>::value_of(7)); };
                else if constexpr (VT == 1) c.f << [] { return cocls::future<void>::set_value(); };
                else if constexpr (VT == 2) c.f << [] { return cocls::future<val::MoveOnly>::set_value(val::MoveOnly(Ctx<VT>::value_of(7))); };
                else if constexpr (VT == 3) c.f << [&c] { return cocls::future<int &>::set_value(c.slots[7]); };
                else c.f << [] { return cocls::future<val::Counted>::set_value(val::Counted(Ctx<VT>::value_of(7))); };
            }
            else if (p.factory == 2) c.f << [] { return cocls::future<typename Tr<VT>::T>::set_exception(std::make_exception_ptr(val::TestExc(7))); };
            else c.f << [] { return cocls::future<typename Tr<VT>::T>::set_not_value(); };
            HZ_CHECK(c.f.ready(), "a future built by set_value / set_exception / set_not_value is not ready");
        } else
        c.prom.emplace(c.f.get_promise());
        for (unsigned k = 0; k < p.moves; k++) {
            cocls::promise<typename Tr<VT>::T> tmp(std::move(*c.prom));
            c.prom.emplace(std::move(tmp));
        }
        if (p.moves >= 1) {
            // move assignment of the promise to itself (through an alias) changes nothing
            auto &alias = *c.prom; *c.prom = std::move(alias);
            HZ_CHECK((bool)*c.prom, "a promise move-assigned to itself no longer owns its future");
            HZ_CHECK(!c.f.ready(), "a promise move-assigned to itself resolved its future");
        }
        if (p.assign_over) {
            // p2 = std::move(p): the future p2 owned so far is resolved to no-value at once, p is left empty, p2 owns p's future
            cocls::future<typename Tr<VT>::T> other;
            cocls::promise<typename Tr<VT>::T> p2 = other.get_promise();
            p2 = std::move(*c.prom);
            HZ_CHECK(other.ready(), "move assignment onto a promise that owned a pending future left that future pending");
            HZ_CHECK(!(bool)other.has_value(), "the future dropped by a move assignment has a value");
            HZ_CHECK(!(bool)*c.prom, "the source of a promise move assignment still owns a future");
            HZ_CHECK((bool)p2, "the target of a promise move assignment owns nothing");
            c.prom.emplace(std::move(p2));
        }
        std::vector<std::thread> wt, rt;
        auto spawn_w = [&] { for (size_t i = 0; i < p.wai.size(); i++) wt.emplace_back([&c, i] { waiter_thread<VT>(c, (int)i); }); };
        auto spawn_r = [&] { for (size_t i = 0; i < p.res.size(); i++) rt.emplace_back([&c, i] { resolver_thread<VT>(c, (int)i); }); };
        if (p.resolvers_first) { spawn_r(); spawn_w(); } else { spawn_w(); spawn_r(); }
        for (auto &t : rt) t.join();
        int t_destroy = hz::tick();
        c.prom.reset();                       // resolves to no-value if nobody claimed
        int t_destroyed = hz::tick();
        for (auto &t : wt) t.join();

        // ---- oracle ----
        int winners = 0, winner = -1, acted = 0; bool silent_claimant = false;
        for (size_t i = 0; i < c.r.size(); i++) {
            if (c.r[i].action == A_BIND_DROP) { silent_claimant = true; continue; }       // may have obtained the promise; its effect is no-value either way
            if (c.r[i].action != A_NOTHING) acted++;
            if (c.r[i].won == 1) { winners++; winner = (int)i; }
        }
        HZ_CHECK(winners <= 1 && (winners == 1 || acted == 0 || silent_claimant), "%d resolver calls reported success (%d resolvers acted): exactly one resolution must take effect", winners, acted);
        int expect = winner >= 0 ? c.expected_code(c.r[winner].action, winner) : -1;
        if (p.factory) expect = p.factory == 1 ? (VT == 1 ? 0 : Ctx<VT>::value_of(7)) : p.factory == 2 ? 1007 : -1;
        int final1 = c.observe();
        HZ_CHECK(final1 != -2, "future still reports value_not_ready after every resolver finished and the promise was destroyed");
        HZ_CHECK(final1 != -3, "future holds a torn / destroyed value");
        HZ_CHECK(final1 == expect, "future result is %d but the winner (resolver %d) supplied %d", final1, winner, expect);
        bool hv = (bool)c.f.has_value();
        HZ_CHECK(hv == (expect != -1), "has_value() is %d for result code %d", (int)hv, expect);
        int earliest_set = t_destroy;
        for (auto &r : c.r) if (r.action != A_NOTHING && r.t_begin < earliest_set) earliest_set = r.t_begin;
        int win_begin = winner >= 0 ? c.r[winner].t_begin : t_destroy;
        int win_end = winner >= 0 ? c.r[winner].t_end : t_destroyed;
        if (p.factory) { earliest_set = 0; win_begin = win_end = 0; }      // resolved before anybody looked
        for (size_t i = 0; i < c.w.size(); i++) {
            WRec &w = c.w[i];
            HZ_CHECK(w.resumes == 1, "waiter %zu (kind %d) was released %d times (exactly once expected)", i, w.kind, w.resumes);
            HZ_CHECK(w.ready_at_resume, "waiter %zu (kind %d) was released while ready() was still false", i, w.kind);
            HZ_CHECK(w.t_resume > earliest_set, "waiter %zu (kind %d) was released at t=%d, before any resolver started to set the result (t=%d)", i, w.kind, w.t_resume, earliest_set);
            HZ_CHECK(w.code == expect, "waiter %zu (kind %d) observed %d but the future's result is %d", i, w.kind, w.code, expect);
            // classification: subscribed before / overlapping / after the winning resolution
            int reg_t = w.suspended ? w.t_susp : 0;
            if (reg_t && reg_t < win_begin) cls_mask |= 1;
            else if (w.t_begin > win_end) cls_mask |= 4;
            else { cls_mask |= 2; overlapped++; }
        }
        int final2 = c.observe();
        HZ_CHECK(final2 == final1, "future result changed after resolution: %d then %d", final1, final2);
        if constexpr (VT == 4) {
            HZ_CHECK(hz::slot_get(val::SLOT_LIVE) == (expect >= 0 && expect < 1000 ? 1 : 0),
                     "%ld instance-counted values alive while the future holds %s", hz::slot_get(val::SLOT_LIVE), expect >= 0 && expect < 1000 ? "one value" : "no value");
        }
        // overlapping resolvers (C01 non-triviality): two resolver call intervals intersect
        if (mode == M_C01) {
            for (size_t i = 0; i < c.r.size(); i++) for (size_t j = i + 1; j < c.r.size(); j++) {
                auto &a = c.r[i], &b = c.r[j];
                if (a.action != A_NOTHING && b.action != A_NOTHING && a.t_begin < b.t_end && b.t_begin < a.t_end) overlapped++;
            }
        }
    }
    if constexpr (VT == 4) val::check_counted_balance("end of case");
    const vrt::Stats &st = vrt::stats();
    hz::set_class(cls_mask);
    if (mode == M_C01) hz::set_nontrivial(overlapped > 0 && st.preempt_in_lib > 0);
    else hz::set_nontrivial((cls_mask & 6) != 0 && st.switches > 0);
    hz::count(0, overlapped);
    unsigned ext = 0; for (auto &x : p.res) if (x.action >= A_COUNT) ext++;
    hz::count(1, ext);
    unsigned par = 0; for (auto &x : p.wai) if (x.kind == W_PARALLEL) par++;
    hz::count(2, par);
}

inline void run(hz::Reader &r, Mode mode) {
    Prog p = decode(r, mode);
    switch (p.vt) {
        case 0: run_t<0>(p, mode); break;
        case 1: run_t<1>(p, mode); break;
        case 2: run_t<2>(p, mode); break;
        case 3: run_t<3>(p, mode); break;
        default: run_t<4>(p, mode); break;
    }
}

static const char *const class_names[] = {
    "no-waiter", "waiters:before", "waiters:overlap", "waiters:before+overlap", "waiters:after", "waiters:before+after",
    "waiters:overlap+after", "waiters:before+overlap+after"};
static const char *const counter_names[] = {"overlapping_parties", "resolvers_using_move_bind_unhandled_or_default_forms", "waiters_using_parallel"};

} // namespace scen_future
