// scen_pool.h - thread pool scenario: C11, reused by C03 (TSan)
#pragma once
#include "common.h"
#include "values.h"

namespace scen_pool {

enum { K_COAWAIT, K_COAWAIT_AWT_READY, K_COAWAIT_AWT_PENDING, K_RUN_FN, K_RUN_DETACHED, K_RUN_ASYNC, K_RESUME_SP, K_COUNT };
struct Job { uint8_t kind, yields, where; uint8_t again = 0; uint8_t big = 0; uint8_t conc = 0; uint8_t inner = 0; };   // inner (run / run_detached): the job creates a private pool of its own, uses it and destroys it - on the worker of THIS pool   // conc (pool(pending awaitable)): the awaitable is resolved by a helper thread, possibly while the coroutine is still suspending on it   // big (run / run_detached): the closure is larger than the pool's small-object space (heap instance instead of in-place)   // again (co_await pool only): once on a worker the coroutine re-submits itself with co_await thread_pool::current()     // where: 0 submitted by the owner thread, 1 by a second submitter thread
struct Prog { uint8_t workers; std::vector<Job> jobs; uint8_t stop_who; uint8_t stop_pos; uint8_t stop_yields; uint8_t wait_first = 0; int rdv_a = -1, rdv_b = -1; };
// wait_first: the owner waits for the result of every submission before it stops / destroys the pool (then nothing may be cancelled)
// rdv_a/rdv_b: job a does not finish until job b has started (or the pool is being stopped): with >=2 workers b must get one of the others
// stop_who: 0 destructor only, 1 owner calls stop() before job #stop_pos, 2 a pool job calls stop(), 3 owner stop() at the end then destructor

inline Prog decode(hz::Reader &r, bool allow_self_stop) {
    Prog p;
    p.workers = (uint8_t)(1 + r.mod(3));
    unsigned n = 1 + r.mod(3);
    for (unsigned i = 0; i < n; i++) { Job j; j.kind = (uint8_t)r.mod(K_COUNT); j.yields = (uint8_t)r.mod(3); j.where = 0; p.jobs.push_back(j); }
    p.stop_who = (uint8_t)r.mod(4);
    if (!allow_self_stop && p.stop_who == 2) p.stop_who = 1;
    p.stop_pos = (uint8_t)r.mod(n + 1);
    if (p.stop_who == 2 && p.stop_pos >= n) p.stop_pos = (uint8_t)(n - 1);
    p.stop_yields = (uint8_t)r.mod(3);
    uint8_t wmask = r.u8();
    for (unsigned i = 0; i < n; i++) p.jobs[i].where = (wmask >> i) & 1;
    uint8_t amask = r.u8();
    for (unsigned i = 0; i < n; i++) p.jobs[i].again = (uint8_t)(p.jobs[i].kind == K_COAWAIT && ((amask >> i) & 1));
    for (unsigned i = 0; i < n; i++) p.jobs[i].conc = (uint8_t)(p.jobs[i].kind == K_COAWAIT_AWT_PENDING && ((amask >> (i + 4)) & 1));
    for (unsigned i = 0; i < n; i++) p.jobs[i].big = (uint8_t)((p.jobs[i].kind == K_RUN_FN || p.jobs[i].kind == K_RUN_DETACHED || p.jobs[i].kind == K_RESUME_SP || p.jobs[i].kind == K_RUN_ASYNC) && ((amask >> (i + 4)) & 1));     // (resume(suspend_point): the suspend point carries TWO coroutines)
    uint8_t x = r.u8();     // trailing byte (older replay files keep their meaning)
    p.wait_first = (uint8_t)((x & 1) && (p.stop_who == 0 || p.stop_who == 3));
    for (unsigned i = 0; i < n; i++) p.jobs[i].inner = (uint8_t)((p.jobs[i].kind == K_RUN_FN || p.jobs[i].kind == K_RUN_DETACHED) && ((x >> (5 + i)) & 1));
    if (((x >> 1) % 3) == 1 && p.workers >= 2 && n >= 2)
        for (unsigned i = 0; i < n; i++) {
            uint8_t k = p.jobs[i].kind;
            if (k == K_COAWAIT || k == K_RUN_FN || k == K_RUN_DETACHED || k == K_RUN_ASYNC) { p.rdv_a = (int)i; p.rdv_b = (int)((i + 1) % n); break; }
        }
    return p;
}
inline std::string describe(const Prog &p) {
    static const char *kn[] = {"co_await pool", "co_await pool(ready awaitable)", "co_await pool(pending awaitable)", "run(fn)", "run_detached(fn)", "run(async)", "resume(suspend_point)"};
    static const char *sw[] = {"destructor only", "owner stop() before job #", "a pool job calls stop() after job #", "owner stop() after all jobs, then destructor"};
    hz::Desc d; d << "pool(" << (unsigned)p.workers << " workers); jobs:";
    for (auto &j : p.jobs) d << " [" << (j.where ? "2nd thread, " : "") << "yield*" << (unsigned)j.yields << ", " << kn[j.kind] << (j.again ? ", then co_await thread_pool::current()" : "") << (j.big ? (j.kind == K_RESUME_SP ? ", two coroutines in the suspend point" : j.kind == K_RUN_ASYNC ? ", the coroutine suspends on the pool once more" : ", 128-byte closure") : "") << (j.conc ? ", awaitable resolved by a helper thread" : "") << (j.inner ? ", the job creates, uses and destroys a private pool of its own" : "") << "]";
    if (p.rdv_a >= 0) d << "; job #" << p.rdv_a << " keeps its worker until job #" << p.rdv_b << " has started";
    d << "; stop: " << (p.wait_first ? "the owner waits for every result, then " : "") << sw[p.stop_who];
    if (p.stop_who == 1 || p.stop_who == 2) d << (unsigned)p.stop_pos;
    return d.s;
}

struct JRec {
    int kind = 0;
    int ran = 0, cancelled = 0;
    int ran2 = 0, cancelled2 = 0; bool on_worker2 = false;     // second stage: after co_await thread_pool::current()
    int ran_b = 0; bool on_worker_b = false; int t_ran_b = 0;    // resume(suspend_point): the SECOND coroutine carried by the same suspend point
    bool on_worker = false;
    int t_submit_begin = 0, t_submit_end = 0, t_ran = 0;
    int t_start_ret = 0;      // conc variant: when start() of the coroutine returned to the submitter
    long guards_live = 0; int guard_called = 0;
};

struct Ctx {
    std::unique_ptr<cocls::thread_pool> pool;
    cocls::thread_pool *pp = nullptr;      // stays valid as an address for is_current()
    std::vector<JRec> j;
    const Prog *p = nullptr;
    int t_stop_begin = 0, t_stop_end = 0;
    // per job resources that must outlive the pool
    // indexed by job (two threads submit concurrently: no shared growing containers)
    std::vector<std::unique_ptr<cocls::future<void>>> co_done;     // coroutine-kind jobs
    std::vector<std::unique_ptr<cocls::future<void>>> co_done_b;   // second coroutine of a two-handle suspend point
    std::vector<std::unique_ptr<cocls::future<int>>> int_futs;     // run(fn) / run(async)
    std::vector<std::unique_ptr<cocls::future<int>>> gates;        // awaitables of K_COAWAIT_AWT_*
    std::vector<std::unique_ptr<cocls::future<void>>> vgates;      // parked coroutines of K_RESUME_SP
    void mark_ran(int i) {
        JRec &r = j[(size_t)i]; r.ran++; r.on_worker = is_current(*pp); r.t_ran = hz::tick();
        hz::slot_add(14, 1L << (4 * i));          // (slot: visible to the polling job below without a harness data race)
        if (i == p->rdv_a) {
            // this job keeps its worker until job b has started (or the pool is being stopped): b has to get ANOTHER worker
            hz::slot_add(15, 1);
            while (!((hz::slot_get(14) >> (4 * p->rdv_b)) & 15) && !pp->is_stopped()) vrt::yield();
        }
    }
    // a job that uses a private pool of its own: created, used and destroyed on the worker of the outer pool, which must stay a worker
    void inner_episode(int i) {
        if (!p->jobs[(size_t)i].inner) return;
        cocls::thread_pool inner(1);
        int r = inner.run([] { return 3; }).wait();
        if (r != 3) hz::fail("a function run on a private inner pool returned %d instead of 3", r);
        hz::slot_add(16, 1);
    }
    bool started(size_t i) const { return ((hz::slot_get(14) >> (4 * i)) & 15) != 0; }
    // a coroutine that was just cancelled or handed over typically looks at the pool again (is it stopped? can I
    // re-submit?): this must be possible wherever the library chose to resume it (e.g. not under the pool's lock)
    void touch_pool() { hz::slot_add(13, pp->is_stopped() ? 1 : 2); hz::slot_add(13, pp->any_enqueued() ? 1 : 2); }     // (slot: bookkeeping invisible to TSan)
};

// closure guard for run_detached: counts live instances through an atomic-free slot
struct Guard {
    JRec *r;
    explicit Guard(JRec *r_) : r(r_) { hz::slot_add(10, 1); }
    Guard(const Guard &o) : r(o.r) { hz::slot_add(10, 1); }
    Guard(Guard &&o) noexcept : r(o.r) { hz::slot_add(10, 1); }
    ~Guard() { hz::slot_add(10, -1); hz::slot_add(11, 1); }
};

inline cocls::async<void> job_coawait(Ctx &c, int i) {
    try { co_await *c.pp; c.mark_ran(i); }
    catch (const cocls::await_canceled_exception &) { c.j[(size_t)i].cancelled++; c.touch_pool(); co_return; }
    if (!c.p->jobs[(size_t)i].again) co_return;
    // now on a worker: go to the end of the current pool's queue (continues at once if that pool is already stopping)
    hz::upoints(c.p->jobs[(size_t)i].yields);
    JRec &r = c.j[(size_t)i];
    try { co_await cocls::thread_pool::current(); r.ran2++; r.on_worker2 = is_current(*c.pp); }
    catch (const cocls::await_canceled_exception &) { r.cancelled2++; c.touch_pool(); }
}
inline cocls::async<void> job_coawait_awt(Ctx &c, int i, cocls::future<int> *gate) {
    try { int v = co_await (*c.pp)(*gate); c.mark_ran(i); HZ_CHECK(v == 5, "co_await pool(awaitable) returned %d instead of the awaitable's value 5", v); c.touch_pool(); }
    catch (const cocls::await_canceled_exception &) { c.j[(size_t)i].cancelled++; c.touch_pool(); }
}
inline cocls::async<int> job_async(Ctx &c, int i) {
    c.mark_ran(i);
    if (c.p->jobs[(size_t)i].big) {
        // the coroutine handed to run(async) suspends: it goes to the end of the pool's queue once more (continues at once, with an
        // exception, if the pool is being stopped); the worker that started it must be free to serve that
        try { co_await *c.pp; c.j[(size_t)i].ran2++; } catch (const cocls::await_canceled_exception &) { c.j[(size_t)i].cancelled2++; }
    }
    co_return 9;
}
inline cocls::async<void> job_parked_b(Ctx &c, int i, cocls::future<void> *gate) {
    try { co_await *gate; JRec &r = c.j[(size_t)i]; r.ran_b++; r.on_worker_b = is_current(*c.pp); r.t_ran_b = hz::tick(); }
    catch (const cocls::await_canceled_exception &) {}
}
inline cocls::async<void> job_parked(Ctx &c, int i, cocls::future<void> *gate) {
    try { co_await *gate; c.mark_ran(i); c.touch_pool(); }
    catch (const cocls::await_canceled_exception &) { c.j[(size_t)i].cancelled++; }
}

inline void submit(Ctx &c, int i) {
    JRec &r = c.j[(size_t)i];
    size_t u = (size_t)i;
    cocls::thread_pool &pool = *c.pp;
    hz::upoints(c.p->jobs[u].yields);
    r.t_submit_begin = hz::tick();
    switch (r.kind) {
        case K_COAWAIT:
            c.co_done[u].reset(new cocls::future<void>(job_coawait(c, i).start()));
            break;
        case K_COAWAIT_AWT_READY: {
            c.gates[u].reset(new cocls::future<int>(cocls::future<int>::set_value(5)));
            c.co_done[u].reset(new cocls::future<void>(job_coawait_awt(c, i, c.gates[u].get()).start()));
        } break;
        case K_COAWAIT_AWT_PENDING: {
            c.gates[u].reset(new cocls::future<int>());
            cocls::promise<int> pr = c.gates[u]->get_promise();
            if (c.p->jobs[u].conc) {
                // the awaited operation completes on another thread - possibly in the middle of the coroutine's suspension
                std::thread helper([pr = std::move(pr)]() mutable { hz::upoint(); pr(5); });
                c.co_done[u].reset(new cocls::future<void>(job_coawait_awt(c, i, c.gates[u].get()).start()));
                r.t_start_ret = hz::tick();
                helper.join();
                break;
            }
            c.co_done[u].reset(new cocls::future<void>(job_coawait_awt(c, i, c.gates[u].get()).start()));
            hz::upoint();
            pr(5);            // perform_resume -> pool.resume(...)
        } break;
        case K_RUN_FN: {
            Ctx *pc = &c;
            if (c.p->jobs[u].big) { std::array<unsigned char, 120> pad; pad.fill((unsigned char)(i + 1));
                c.int_futs[u].reset(new cocls::future<int>(pool.run([pc, i, pad]() -> int { for (unsigned char x : pad) if (x != (unsigned char)(i + 1)) hz::fail("captured data of a large closure was corrupted"); pc->inner_episode(i); pc->mark_ran(i); return 7; }))); }
            else c.int_futs[u].reset(new cocls::future<int>(pool.run([pc, i]() -> int { pc->inner_episode(i); pc->mark_ran(i); return 7; })));
        } break;
        case K_RUN_DETACHED: {
            Ctx *pc = &c;
            if (c.p->jobs[u].big) { std::array<unsigned char, 120> pad; pad.fill((unsigned char)(i + 1));
                pool.run_detached([pc, i, pad, g = Guard(&r)]() { for (unsigned char x : pad) if (x != (unsigned char)(i + 1)) hz::fail("captured data of a large closure was corrupted"); pc->j[(size_t)i].guard_called++; pc->inner_episode(i); pc->mark_ran(i); }); }
            else pool.run_detached([pc, i, g = Guard(&r)]() { pc->j[(size_t)i].guard_called++; pc->inner_episode(i); pc->mark_ran(i); });
        } break;
        case K_RUN_ASYNC:
            c.int_futs[u].reset(new cocls::future<int>(pool.run(job_async(c, i))));
            break;
        default: {
            c.vgates[u].reset(new cocls::future<void>());
            cocls::promise<void> pr = c.vgates[u]->get_promise();
            c.co_done[u].reset(new cocls::future<void>(job_parked(c, i, c.vgates[u].get()).start()));
            if (c.p->jobs[u].big) c.co_done_b[u].reset(new cocls::future<void>(job_parked_b(c, i, c.vgates[u].get()).start()));
            pool.resume(pr());     // the suspend point carries the parked coroutine(s)
        } break;
    }
    r.t_submit_end = hz::tick();
}

inline void run(hz::Reader &rd, bool allow_self_stop) {
    Prog p = decode(rd, allow_self_stop);
    bool overlap = false;
    {
        Ctx c; c.p = &p; c.j.resize(p.jobs.size());
        for (size_t i = 0; i < p.jobs.size(); i++) c.j[i].kind = p.jobs[i].kind;
        c.co_done.resize(p.jobs.size()); c.co_done_b.resize(p.jobs.size()); c.int_futs.resize(p.jobs.size()); c.gates.resize(p.jobs.size()); c.vgates.resize(p.jobs.size());
        c.pool.reset(new cocls::thread_pool(p.workers));
        c.pp = c.pool.get();
        // a second thread submits its share concurrently with the owner (and with the owner's stop())
        std::thread second([&c, &p] { for (size_t i = 0; i < p.jobs.size(); i++) if (p.jobs[i].where == 1) submit(c, (int)i); });
        for (size_t i = 0; i < p.jobs.size(); i++) {
            if (p.jobs[i].where == 0) {
                if (p.stop_who == 1 && p.stop_pos == i) {
                    hz::upoints(p.stop_yields);
                    c.t_stop_begin = hz::tick(); c.pool->stop(); c.t_stop_end = hz::tick();
                }
                submit(c, (int)i);
            }
            if (p.stop_who == 2 && p.stop_pos == i) {
                Ctx *pc = &c;
                // stop() from one of the pool's own threads (allowed: the thread detaches itself)
                c.pool->run_detached([pc]() { pc->t_stop_begin = hz::tick(); pc->pp->stop(); pc->t_stop_end = hz::tick(); });
            }
        }
        if (p.stop_who == 1 && !c.t_stop_begin) { hz::upoints(p.stop_yields); c.t_stop_begin = hz::tick(); c.pool->stop(); c.t_stop_end = hz::tick(); }
        if (p.stop_who == 3 && !p.wait_first) { hz::upoints(p.stop_yields); c.t_stop_begin = hz::tick(); c.pool->stop(); c.t_stop_end = hz::tick(); c.pool->stop(); }
        second.join();
        if (p.wait_first) {
            // the usual way to use a pool: wait for the results, then stop / destroy it (stop_who 0 or 3)
            for (size_t i = 0; i < c.j.size(); i++) {
                if (c.co_done[i]) c.co_done[i]->sync();
                if (c.co_done_b[i]) c.co_done_b[i]->sync();
                if (c.int_futs[i]) c.int_futs[i]->sync();
                if (c.j[i].kind == K_RUN_DETACHED) while (!c.started(i)) vrt::yield();
            }
            if (p.stop_who == 3) { c.t_stop_begin = hz::tick(); c.pool->stop(); c.t_stop_end = hz::tick(); c.pool->stop(); }
        } else
        if (p.stop_who == 2) {
            // wait until the self-stopping job has finished before the pool object dies
            // (the job uses the pool object; destroying it under its feet would be a harness bug)
            int spins = 0;
            while (!c.t_stop_end && !c.pool->is_stopped()) { vrt::yield(); HZ_CHECK(++spins < 20000, "self-stop job never ran"); }
            while (!c.t_stop_end && spins < 40000) { vrt::yield(); spins++; }
        }
        // once the owner's stop() has returned and every submit call has returned, no worker exists any more: every
        // submission must already be settled (run or cancelled) - none may hang until the pool OBJECT is destroyed
        if ((p.stop_who == 1 || p.stop_who == 3) && c.t_stop_end) {
            for (size_t i = 0; i < c.j.size(); i++) {
                JRec &r = c.j[i];
                const char *when = r.t_submit_begin > c.t_stop_end ? "after stop() had returned" : "while stop() was running";
                if (c.co_done[i]) HZ_CHECK(c.co_done[i]->ready(), "job %zu (kind %d) was submitted %s and is still pending now that the pool is stopped (it would hang until the pool object is destroyed)", i, r.kind, when);
                if (c.int_futs[i]) HZ_CHECK(c.int_futs[i]->ready(), "job %zu (kind %d): the future of a submission made %s is still pending now that the pool is stopped", i, r.kind, when);
            }
            // run_detached closures: every one was either called or destroyed by now
            long called = 0, total = 0; for (auto &r : c.j) if (r.kind == K_RUN_DETACHED) { total++; called += r.ran; }
            HZ_CHECK(hz::slot_get(10) == 0, "%ld run_detached closures are still alive (neither run nor dropped) although the pool is stopped and every submit call has returned", hz::slot_get(10));
            (void)called; (void)total;
        }
        if (!c.t_stop_begin) c.t_stop_begin = hz::tick();
        c.pool.reset();                       // destructor: stop + join, must not deadlock
        if (!c.t_stop_end) c.t_stop_end = hz::tick();

        // ---- oracle: every submission ran once on a worker or was cancelled once ----
        for (size_t k = 0; k < c.int_futs.size(); k++) {
            if (!c.int_futs[k]) continue;
            int i = (int)k; JRec &r = c.j[k];
            HZ_CHECK(c.int_futs[k]->ready(), "job %d (%s): the returned future is still pending after the pool was destroyed (forgotten submission)", i, r.kind == K_RUN_FN ? "run(fn)" : "run(async)");
            bool hv = (bool)c.int_futs[k]->has_value();
            if (!hv) r.cancelled++;
            else HZ_CHECK(c.int_futs[k]->value() == (r.kind == K_RUN_FN ? 7 : 9), "job %d: wrong result value", i);
            HZ_CHECK(hv == (r.ran == 1), "job %d: future has_value()=%d but the body ran %d times", i, (int)hv, r.ran);
        }
        for (size_t k = 0; k < c.co_done.size(); k++)
            if (c.co_done[k]) HZ_CHECK(c.co_done[k]->ready(), "coroutine job %zu never finished: it was neither run nor cancelled (forgotten with a waiter left hanging)", k);
        for (size_t i = 0; i < c.j.size(); i++) {
            JRec &r = c.j[i];
            if (r.kind == K_RUN_DETACHED) {
                HZ_CHECK(r.ran == r.guard_called, "run_detached job %zu bookkeeping", i);
                if (!r.ran) r.cancelled = 1;       // observable only through the closure's destruction, checked below
            }
            HZ_CHECK(r.ran + r.cancelled == 1, "job %zu (kind %d): ran %d times and was cancelled %d times (exactly one of the two expected)", i, r.kind, r.ran, r.cancelled);
            if (p.wait_first) HZ_CHECK(r.ran == 1 && r.cancelled == 0, "job %zu (kind %d) ran %d times and was cancelled %d times although the owner waited for every result before it stopped the pool", i, r.kind, r.ran, r.cancelled);
            if (r.kind == K_RESUME_SP && p.jobs[i].big) {
                HZ_CHECK(c.co_done_b[i] && c.co_done_b[i]->ready() && r.ran_b == 1, "job %zu: the second coroutine carried by the suspend point handed to resume() ran %d times (every carried coroutine is handed to the pool)", i, r.ran_b);
                if (!r.on_worker_b) HZ_CHECK(r.t_ran_b > c.t_stop_begin, "job %zu: the second coroutine of the suspend point handed to resume() ran outside the pool's workers although the pool had not been stopped yet", i);
            }
            if (r.kind == K_RUN_ASYNC && p.jobs[i].big && r.ran)
                HZ_CHECK(r.ran2 + r.cancelled2 == 1, "job %zu (run(async) whose coroutine suspends on the pool again): it continued %d times and was cancelled %d times (exactly one of the two expected)", i, r.ran2, r.cancelled2);
            if (p.jobs[i].again && r.ran) {
                HZ_CHECK(r.ran2 + r.cancelled2 == 1, "job %zu re-submitted itself with co_await thread_pool::current(): it continued %d times and was cancelled %d times (exactly one of the two expected)", i, r.ran2, r.cancelled2);
                if (r.ran2) HZ_CHECK(r.on_worker2, "job %zu continued after co_await thread_pool::current() without exception, but not on one of the pool's worker threads", i);
            }
            // kinds with a cancellation channel only ever run on a worker; a coroutine handed
            // over by resume()/pool(awaitable) has no such channel: it may run elsewhere only
            // because the pool was already being stopped
            bool has_cancel_channel = r.kind == K_COAWAIT || r.kind == K_RUN_FN || r.kind == K_RUN_DETACHED || r.kind == K_RUN_ASYNC;
            if (r.ran && has_cancel_channel)
                HZ_CHECK(r.on_worker, "job %zu (kind %d) ran, but not on one of the pool's worker threads", i, r.kind);
            // (documented: if the awaited operation is already resolved when the coroutine gets to it, no thread is allocated
            // and execution continues in the current thread - with a helper thread resolving concurrently that can happen:
            // then the coroutine ran without suspending, i.e. before start() returned to the submitter)
            bool ran_inline = r.t_start_ret && r.t_ran < r.t_start_ret;
            if (r.ran && !r.on_worker && !ran_inline && (r.kind == K_COAWAIT_AWT_PENDING || r.kind == K_RESUME_SP))
                HZ_CHECK(r.t_ran > c.t_stop_begin, "job %zu (kind %d) ran outside the pool's workers although the pool had not been stopped yet", i, r.kind);
            if (r.ran && r.t_ran > c.t_stop_begin && r.t_ran < c.t_stop_end) overlap = true;
            if (r.t_submit_end > c.t_stop_begin && r.t_submit_end < c.t_stop_end + 2) overlap = true;
        }
        HZ_CHECK(hz::slot_get(10) == 0, "%ld run_detached closures still alive after the pool was destroyed (leaked)", hz::slot_get(10));
    }
    const vrt::Stats &st = vrt::stats();
    hz::set_class(p.stop_who);
    hz::set_nontrivial(overlap || st.preempt_in_lib > 0);
    hz::count(0, p.wait_first ? 1 : 0); hz::count(1, (uint64_t)hz::slot_get(15)); hz::count(2, (uint64_t)hz::slot_get(16));
}

static const char *const class_names[] = {"stop:destructor", "stop:owner-mid-way", "stop:from-a-pool-job", "stop:twice"};
static const char *const counter_names[] = {"cases_where_the_owner_waits_for_every_result", "rendezvous_jobs_that_ran", "jobs_that_used_a_private_inner_pool"};

} // namespace scen_pool
