// C20 - the core synchronisation primitives never allocate
#include "common.h"
#include "values.h"
#include <cocls/self.h>

namespace c20 {

// bump arena: every user coroutine frame lives here, so it never reaches global operator new
struct Arena {
    static constexpr std::size_t SZ = 256 * 1024;
    alignas(16) char buf[SZ]; std::size_t off = 0;
    void *alloc(std::size_t sz) { std::size_t a = (off + 15) & ~std::size_t(15); if (a + sz > SZ) hz::fail("harness arena exhausted"); off = a + sz; return buf + a; }
    static void dealloc(void *, std::size_t) {}
};

struct Parked {
    struct promise_type {
        Parked get_return_object() { return Parked{std::coroutine_handle<promise_type>::from_promise(*this)}; }
        std::suspend_always initial_suspend() noexcept { return {}; }
        std::suspend_always final_suspend() noexcept { return {}; }
        void return_void() {}
        void unhandled_exception() { std::terminate(); }
    };
    std::coroutine_handle<promise_type> h;
};
inline Parked parked(int *counter) { for (;;) { (*counter)++; co_await std::suspend_always{}; } }

struct Big { long w[8]; };       // a value type that does not allocate, larger than any small-object buffer
struct Op { uint8_t code, a, b; };
struct Prog { std::vector<Op> ops; };
inline Prog decode(hz::Reader &r) { Prog p; unsigned n = 0; while (r.more() && n < 40) { Op o; o.code = (uint8_t)r.mod(13); o.a = r.u8(); o.b = r.u8(); p.ops.push_back(o); n++; } return p; }
static const char *opn[] = {"new future/promise pair", "coroutine waiter", "callback awaiter", "resolve(value)", "resolve(exception|drop)", "destroy pair", "mutex episode (contend + hand over)",
                            "suspend point episode (<=3 handles: merge, move, pop, clear | co_await by a coroutine, its own handle among them or not)", "step synchronous generator", "blocking wait (ready future | waiter thread)",
                            "coroutine blocks in force_wait() while another coroutine is queued on its thread; a second thread resolves",
                            "callback_await_alloc (helper frame in the arena) with a small or a 100-byte callback",
                            "future of a 64-byte value resolved through promise::bind() (or directly), read, destroyed"};
inline std::string describe(const Prog &p) {
    hz::Desc d; d << (unsigned)p.ops.size() << " ops (program executed twice inside the measured region):";
    for (auto &o : p.ops) { d << " " << opn[o.code]; if (o.code == 6) d << "[" << (unsigned)(2 + o.a % 3) << " lockers]"; }
    return d.s;
}

constexpr int NP = 4, NCB = 8;
struct Pair { alignas(cocls::future<int>) char buf[sizeof(cocls::future<int>)]; cocls::future<int> *f = nullptr; cocls::promise<int> p; bool resolved = false; int co_waiting = 0; };

struct CbAw : cocls::awaiter {
    int *fired = nullptr;
    CbAw() { set_resume_fn(&fn); }
    static cocls::suspend_point<void> fn(cocls::awaiter *me, void *) noexcept { (*static_cast<CbAw *>(me)->fired)++; return {}; }
};

struct World {
    Arena arena;
    Pair pairs[NP];
    CbAw cbs[NCB]; int ncb = 0;
    int co_waiters_started = 0, co_waiters_done = 0, cb_fired = 0, cb_registered = 0;
    cocls::mutex mx; int grants = 0, lockers = 0;
    int parked_count[3] = {0, 0, 0};
    long gen_sum = 0; int gen_steps = 0;
    unsigned stats_waiters = 0, stats_handover = 0; int thread_waiters = 0;
    int forcers = 0, forcers_done = 0, bystanders = 0;
    int cba_registered = 0, cba_fired = 0; int big_episodes = 0; int sp_awaits = 0, sp_awaits_done = 0;
};

inline cocls::with_allocator<Arena, cocls::async<void>> co_waiter(Arena &, World *w, cocls::future<int> *f) {
    try { int v = co_await *f; (void)v; } catch (...) {}
    w->co_waiters_done++;
}
inline cocls::with_allocator<Arena, cocls::async<void>> locker(Arena &, World *w) {
    cocls::mutex::ownership own = co_await w->mx.lock();
    w->grants++;
    own.release();
}
inline cocls::with_allocator<Arena, cocls::async<void>> bystander(Arena &, World *w) { w->bystanders++; co_return; }
// blocks its thread inside a coroutine (force_wait is the documented way) with a non-empty ready queue behind it
inline cocls::with_allocator<Arena, cocls::async<void>> forcer(Arena &a, World *w, cocls::future<int> *f) {
    bystander(a, w).detach();
    try { f->force_wait(); } catch (...) {}
    w->forcers_done++;
    co_return;
}
// a coroutine that awaits a suspend point carrying three ready coroutines - optionally its own handle (cocls::self) and two others
inline cocls::with_allocator<Arena, cocls::async<void>> sp_awaiter(Arena &, World *w, std::vector<Parked> *parks, bool with_self) {
    cocls::suspend_point<void> t;
    if (with_self) { cocls::suspend_point<void> me = co_await cocls::self(); t << std::move(me); }
    else t << (*parks)[2].h;
    t << (*parks)[0].h;
    t << (*parks)[1].h;
    co_await std::move(t);
    w->sp_awaits_done++;
}
inline cocls::generator<int> counting_gen() { for (int i = 1;; i++) co_yield i; }
// generator with an argument: every step is handed an argument and answers argument + 1
inline cocls::generator<int, int> echo_gen() { int a = co_yield nullptr; for (;;) a = co_yield a + 1; }

inline void settle_pair(World &w, Pair &p) { if (p.f && !p.resolved) { p.p(cocls::drop); p.resolved = true; } }

inline void exec(World &w, const Prog &prog, std::vector<Parked> &parks, cocls::generator<int> &gen, cocls::generator<int, int> &gen2) {
    for (auto &o : prog.ops) {
        Pair &p = w.pairs[o.a % NP];
        switch (o.code) {
            case 0: if (!p.f) { p.f = new (p.buf) cocls::future<int>(); p.p = p.f->get_promise(); p.resolved = false; p.co_waiting = 0; } break;
            // domain: at most 3 COROUTINE waiters per future - the resolution carries its ready coroutines in one
            // suspend point, whose documented allocation-free capacity is three (any number of callback / thread waiters)
            case 1: if (p.f && w.co_waiters_started < 24 && (p.resolved || p.co_waiting < 3)) { w.co_waiters_started++; w.stats_waiters++; if (!p.resolved) p.co_waiting++; co_waiter(w.arena, &w, p.f).detach(); } break;
            case 2: if (p.f && w.ncb < NCB) {
                CbAw &a = w.cbs[w.ncb++]; a.fired = &w.cb_fired; a._next = nullptr;
                if (p.f->operator co_await().subscribe(&a)) w.cb_registered++; else { w.cb_registered++; w.cb_fired++; }
                w.stats_waiters++;
            } break;
            case 3: if (p.f && !p.resolved) { p.p(42 + o.b); p.resolved = true; } break;
            case 4: if (p.f && !p.resolved) { if (o.b & 1) p.p(std::make_exception_ptr(val::TestExc(1))); else p.p(cocls::drop); p.resolved = true; } break;
            case 5: if (p.f) { settle_pair(w, p); p.f->~future(); p.f = nullptr; } break;
            case 6: {
                int n = 2 + o.a % 3;
                cocls::mutex::ownership own = w.mx.try_lock();
                if (!own) break;
                for (int i = 0; i < n; i++) { w.lockers++; locker(w.arena, &w).detach(); }     // all of them have to wait: contention
                own.release();                                                               // hand over: each locker passes it on
                w.stats_handover += (unsigned)n;
            } break;
            case 7: if ((o.b & 3) >= 2) {
                // the three ready coroutines are carried by a suspend point that a coroutine co_awaits (with its own handle among them or not)
                w.sp_awaits++;
                sp_awaiter(w.arena, &w, &parks, (o.b & 3) == 3).detach();
            } else {
                cocls::suspend_point<void> a(parks[0].h);
                a << parks[1].h;
                cocls::suspend_point<void> b(std::move(a));
                cocls::suspend_point<void> c;
                c << parks[2].h;
                c << std::move(b);                       // 3 handles: still inline
                std::coroutine_handle<> h = c.pop();
                c << std::move(h);
                c.clear();
            } break;
            case 8: if (o.b & 4) {
                // synchronous step of a generator that takes an argument: handed over as a temporary, an expiring value or a variable
                int a = o.a, got = -1; bool more;
                switch (o.b & 3) {
                    case 0: more = (bool)gen2.next(int(o.a)); break;
                    case 1: { int v = a; more = (bool)gen2.next(std::move(v)); } break;
                    case 2: more = (bool)gen2.next(a + 0); break;            // (a constant is not accepted: the parameter is Arg &)
                    default: more = (bool)gen2.next(a); break;
                }
                if (more) got = gen2.value();
                if (got != a + 1) hz::fail("generator with an argument answered %d to the argument %d (argument + 1 expected)", got, a);
                w.gen_steps++;
            } else { bool more = (bool)gen.next(); if (more) { w.gen_sum += gen.value(); w.gen_steps++; } } break;
            case 12: {
                cocls::future<Big> f; cocls::promise<Big> pr = f.get_promise();
                Big v; for (int i = 0; i < 8; i++) v.w[i] = o.a + i;
                if (o.b & 1) { auto fn = pr.bind(v); fn(); }                   // resolution prepared in advance, performed by calling the bound object
                else if (o.b & 2) { auto fn = pr.bind(v); (void)fn; }          // (bound object dropped uncalled: the promise inside is destroyed, no value)
                else pr(v);
                bool hv = f.has_value();
                if (hv != !(!(o.b & 1) && (o.b & 2))) hz::fail("a future whose resolution was %s reports has_value()=%d", (!(o.b & 1) && (o.b & 2)) ? "bound but never performed" : "performed", (int)hv);
                if (hv && f.value().w[7] != o.a + 7) hz::fail("a 64-byte value arrived damaged");
                w.big_episodes++;
            } break;
            case 11: if (p.f && w.cba_registered < 16 && (p.resolved || p.co_waiting < 3)) {       // (the helper is a coroutine waiter: same bound of three per future)
                if (!p.resolved) p.co_waiting++;
                // awaiting through the callback helper: its coroutine frame goes to the storage the caller supplies,
                // whatever the size of the callback object
                World *pw = &w; w.cba_registered++; w.stats_waiters++;
                if (o.b & 1) { std::array<long, 12> pad; pad.fill(o.b); cocls::callback_await_alloc<Arena, cocls::future<int> &>(w.arena, [pw, pad](cocls::await_result<int> r) { (void)(bool)r; pw->cba_fired += (pad[3] == pad[11]); }, *p.f); }
                else cocls::callback_await_alloc<Arena, cocls::future<int> &>(w.arena, [pw](cocls::await_result<int> r) { (void)(bool)r; pw->cba_fired++; }, *p.f);
            } break;
            case 10: if (p.f && !p.resolved && w.forcers < 2) {
                w.forcers++; w.stats_waiters++;
                cocls::promise<int> pr(std::move(p.p)); p.resolved = true;
                std::thread t([&pr] { hz::upoint(); pr(9); });
                forcer(w.arena, &w, p.f).detach();
                t.join();
            } break;
            default: {
                if (p.f && p.resolved) { try { p.f->wait(); } catch (...) {} }
                else if (p.f && w.thread_waiters++ < 1) {
                    // blocking thread waiter: creating the thread is not an allocation of the primitives (exempt inside vrt)
                    cocls::future<int> *f = p.f;
                    std::thread t([f] { try { f->wait(); } catch (...) {} });
                    hz::upoint();
                    p.p(7); p.resolved = true;
                    t.join();
                    w.stats_waiters++;
                }
            } break;
        }
    }
    for (auto &p : w.pairs) if (p.f) { settle_pair(w, p); p.f->~future(); p.f = nullptr; }
}

inline void run(hz::Reader &r) {
    Prog prog = decode(r);
    unsigned waiters = 0, handover = 0;
    {
        auto w = std::make_unique<World>();
        std::vector<Parked> parks;
        for (int i = 0; i < 3; i++) parks.push_back(parked(&w->parked_count[i]));
        cocls::generator<int> gen = counting_gen();
        cocls::generator<int, int> gen2 = echo_gen();
        // warm the thread's ready queue (its node storage is exempt by construction, see interpose.h)
        hz::measure_begin();
        exec(*w, prog, parks, gen, gen2);
        unsigned long first = hz::measured_so_far();
        // metamorphic cross-check: doubling the operations leaves the count at 0
        w->ncb = 0;
        exec(*w, prog, parks, gen, gen2);
        unsigned long total = hz::measure_end();
        HZ_CHECK(first == 0, "%lu dynamic allocations (operator new) inside the measured region: the primitives allocated although every user frame lives in the arena", first);
        HZ_CHECK(total == 0, "%lu dynamic allocations after the program was executed a second time", total);
        HZ_CHECK(w->co_waiters_done == w->co_waiters_started, "%d of %d coroutine waiters finished", w->co_waiters_done, w->co_waiters_started);
        HZ_CHECK(w->cb_fired == w->cb_registered, "%d of %d callback awaiters fired", w->cb_fired, w->cb_registered);
        HZ_CHECK(w->forcers_done == w->forcers && w->bystanders == w->forcers, "%d of %d force_wait coroutines finished, %d queued bystanders ran", w->forcers_done, w->forcers, w->bystanders);
        HZ_CHECK(w->cba_fired == w->cba_registered, "%d of %d callback_await completions ran", w->cba_fired, w->cba_registered);
        HZ_CHECK(w->sp_awaits_done == w->sp_awaits, "%d of %d coroutines that awaited a suspend point continued", w->sp_awaits_done, w->sp_awaits);
        HZ_CHECK(w->grants == w->lockers, "%d of %d mutex requests granted", w->grants, w->lockers);
        waiters = w->stats_waiters; handover = w->stats_handover;
        for (auto &p : parks) p.h.destroy();
    }
    hz::set_class((waiters ? 1 : 0) | (handover ? 2 : 0));
    hz::set_nontrivial(waiters >= 1 && handover >= 1);
    hz::count(0, waiters); hz::count(1, handover);
}
static const char *const class_names[] = {"plain", "waiters", "mutex-handover", "waiters+mutex-handover"};
static const char *const counter_names[] = {"waiters", "mutex_handovers"};
} // namespace c20

namespace hz {
static const Info I = {
    "C20", 1, 121, 100000, true, true,
    "stateful byte-decoded programs (rapidcheck), up to 40 ops over {create future/promise pair, add coroutine waiter (frame in a pre-allocated arena via with_allocator), add callback awaiter, resolve with value / exception / drop, destroy pair, "
    "mutex episode (owner + 2..4 contending lockers handed over one by one), suspend point episode with <=3 handles (construct, <<, move, merge, pop, clear; or co_await by a coroutine on a suspend point carrying three ready coroutines - its own handle through cocls::self among them or not), step a synchronous generator (without argument, or with an argument handed over as a temporary / expiring value / variable), blocking wait on a ready future or by a waiter thread, a coroutine blocking in force_wait() with another coroutine queued behind it while a second thread resolves, callback_await_alloc with its helper frame in the arena and a small or 100-byte callback, a future of a 64-byte value resolved through promise::bind()}; "
    "the whole program runs inside a measured region of the counting global operator new (thread creation and the node storage of each thread's ready queue - the first deque of handles a thread constructs - are exempt by construction; any other container is counted) and is then executed a second time (metamorphic doubling). "
    "Oracle: operator new count inside the region == 0 after the first and after the second execution; all waiters finished, all lock requests granted. Non-trivial = >=1 waiter and >=1 contended mutex hand-over; distinct = hash(decoded program, executed switch trace).",
    c20::class_names, 4, c20::counter_names, 2};
const Info &info() { return I; }
void run_case(Reader &r) { c20::run(r); }
std::string describe(Reader &r) { return c20::describe(c20::decode(r)); }
}
