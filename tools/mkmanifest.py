#!/usr/bin/env python3
"""writes /verif/MANIFEST.json from the table below (kept next to the checks so the two stay in step)"""
import json, os, sys
ROOT = os.path.dirname(os.path.dirname(os.path.abspath(__file__)))
sys.path.insert(0, ROOT)

ALL = ['C%02d' % i for i in range(1, 21)]

# property -> (technique, level text, level note, design ref)
CHECKS = {
 'C01': ('rapidcheck-generated resolver/observer programs x generated/swept thread schedules on the virtual runtime; oracle = exactly-one-winner count, winner payload equality, observer agreement, instance counting, allocation balance, ASan/UBSan/assert',
         'Exploration: every generated (program, schedule, faults) triple runs the real future/promise under a scheduler the harness owns; all 1-preemption schedules of the swept programs are enumerated.',
         'sequentially consistent interleavings only; <=4 resolvers, <=2 observers; 5 value types', '3 C01'),
 'C02': ('rapidcheck-generated waiter/resolver programs x generated/swept schedules + injected spurious weak-CAS failures; oracle = per-waiter release count == 1, ready() at release, release-after-set order, complete payload (checksummed), deadlock detector, ASan (stack-use-after-return on released waiters)',
         'Exploration over 7 waiter kinds x 6 resolver kinds x 5 value types x schedules; classes before/overlap/after of the resolution are all populated and counted in the evidence.',
         'sequentially consistent interleavings only; <=3 waiters, one resolver', '3 C02'),
 'C03': ('the multi-threaded scenarios of the other properties executed under ThreadSanitizer (clang++) on the virtual runtime with generated/swept schedules; the baton is invisible to TSan and atomic_thread_fence is modelled explicitly; oracle = TSan happens-before race detector + payload checksums',
         'Exploration: data races are decided exactly for the executed accesses under the declared memory orders (happens-before analysis, not timing), for every explored interleaving.',
         'sequentially consistent interleavings only: stale values that only weakly ordered hardware produces through relaxed atomics alone are out of reach; shared_ptr internals not interposed', '3 C03'),
 'C08': ('same generator as C07; oracle over the recorded call history = interval-order FIFO, direct hand-off (no try_lock succeeds while a registered waiter waits), every request granted (deadlock/livelock detector), final try_lock succeeds',
         'Exploration as C07; the FIFO oracle is an invariant over the recorded history (logical clock ticks at call boundaries), sound for any interleaving.',
         'sequentially consistent interleavings only; <=4 contenders x <=3 rounds; liveness is bounded (deadlock exact per schedule, livelock = step budget)', '3 C08'),
 'C07': ('rapidcheck-generated contender programs x generated/swept thread schedules on a virtual runtime; oracle = critical-section holder invariant + double-resumption detector + ASan/UBSan/assert + deadlock detector',
         'Exploration: every generated (program, schedule) pair is executed against the real mutex under a scheduler the harness owns; all 1-preemption schedules of the swept programs are enumerated. Holds on everything explored; no absence claim.',
         'sequentially consistent interleavings only; <=4 contenders x <=3 rounds; scheduling points at interposed std primitives and harness yields', '3 C07'),
}
NOT_YET = 'check not built yet in this round (design in DESIGN.md section 3); will be claimed once implemented and validated'

def main():
    checks = []
    for pid in ALL:
        if pid not in CHECKS: continue
        tech, text, note, ref = CHECKS[pid]
        checks.append(dict(
            property_id=pid,
            quick_cmd='./check %s --tier quick' % pid,
            thorough_cmd='./check %s --tier thorough' % pid,
            evidence_file='/verif/evidence/%s.json' % pid,
            replay_cmd_template='./check %s --replay {path}' % pid,
            engine='vrt+rapidcheck',
            level_claimed=dict(category='exploration', text=text, design_ref='DESIGN.md ' + ref),
            level_note=note,
            technique=tech))
    m = dict(
        version=1,
        setup_cmd='./check --setup',
        hooks=dict(guard='COCLS_VERIF', enable='no source hook: the harness pre-includes engine/interpose.h which renames std::atomic/mutex/condition_variable/thread/deque/system_clock/stop_* to instrumented twins before including the unmodified cocls headers (-DCOCLS_VERIF is passed but nothing in /repo tests it)',
                   baseline_off_cmd='cmake --build /repo/_build && ctest --test-dir /repo/_build -j8 --timeout 900',
                   source_commits=[], add_only=True),
        engines=[dict(name='vrt+rapidcheck', path='engine/', serves_properties=sorted(CHECKS),
                      kind_free_text='property-based testing: rapidcheck generators (programs, schedules, faults) -> fork/served case children running the real cocls code on a virtual runtime that owns the thread schedule and the clock; systematic 1-preemption sweep; sanitizers as part of the oracle')],
        checks=checks,
        notes='Seeds: VERIF_SEED; tiers: VERIF_TIER or --tier. Genuine defects found and repaired are listed in known_findings.txt (fixed: lines).',
        not_applicable=[dict(property_id=p, reason=NOT_YET) for p in ALL if p not in CHECKS],
    )
    json.dump(m, open(os.path.join(ROOT, 'MANIFEST.json'), 'w'), indent=1)
    print('MANIFEST.json: %d checks, %d not_applicable' % (len(checks), len(m['not_applicable'])))

if __name__ == '__main__':
    main()
