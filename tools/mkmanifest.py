#!/usr/bin/env python3
"""writes /verif/MANIFEST.json from the table below (kept next to the checks so the two stay in step)"""
import json, os, sys
ROOT = os.path.dirname(os.path.dirname(os.path.abspath(__file__)))
sys.path.insert(0, ROOT)

ALL = ['C%02d' % i for i in range(1, 21)]

# property -> (technique, level text, level note, design ref)
EXPL = 'Exploration: every generated case runs the real cocls code (unmodified headers, interposed std primitives) and is judged by an explicit oracle; holds on everything explored, no absence claim. '
SC = 'sequentially consistent interleavings produced by the virtual runtime (scheduling points before/after every interposed std::atomic/fence/mutex/condition_variable/thread/shared_ptr operation and at harness yields); g++ 12 / clang++ 14, libstdc++, x86-64; bounds as in the evidence rule'
SEQ = 'single-threaded histories: no schedule involved; g++ 12, libstdc++, ASan+UBSan+_GLIBCXX_ASSERTIONS; bounds as in the evidence rule'
CHECKS = {
 'C01': ('rapidcheck-generated resolver/observer programs x generated/swept thread schedules on a virtual runtime; oracle = exactly-one-winner count, winner payload equality, observer agreement, instance counting, allocation balance, ASan/UBSan/assert',
         EXPL + 'All 1-preemption schedules of the swept programs are enumerated.', SC + '; <=4 resolvers, <=2 observers, 5 value types', '3 C01'),
 'C02': ('rapidcheck-generated waiter/resolver programs x generated/swept schedules + injected spurious weak-CAS failures; oracle = per-waiter release count == 1, ready() at release, release-after-set order, complete payload (checksummed), deadlock detector, ASan stack-use-after-return on released waiters',
         EXPL + '10 waiter kinds x 12 resolver forms x 5 value types, plus futures born resolved through the set_value / set_exception / set_not_value factories; classes before/overlap/after the resolution are all populated and counted.', SC + '; <=3 waiters, one resolver', '3 C02'),
 'C03': ('the multi-threaded scenarios of the other properties executed under ThreadSanitizer (clang++) on the virtual runtime with generated/swept schedules; the baton is invisible to TSan and atomic_thread_fence is modelled explicitly; oracle = happens-before race detector + payload checksums',
         EXPL + 'Data races are decided exactly for the executed accesses under the declared memory orders (happens-before analysis, not timing), for every explored interleaving.',
         SC + '; stale values that only weakly ordered hardware produces through relaxed atomics alone are out of reach; shared_ptr internals are not interposed', '3 C03'),
 'C04': ('rapidcheck-generated chains of scripted async coroutines (13 start modes x 5 completion modes x 4 result types, depth 1..5; optionally a second thread waiting on the future of the root, optionally the root launched by a destructor during stack unwinding) on the virtual runtime; oracle = body-run counters, launcher-received outcome, argument/local guards, instance counting, allocation balance, ASan, deadlock detector',
         EXPL, SC + '; depth <= 5, one pool worker, one resolver thread', '3 C04'),
 'C05': ('stateful byte-decoded single-thread programs of 1..8 scripted coroutines; oracle = online comparison of who gains control with a reference model of the ready queue (FIFO of batches, pause round-robin, suspend-point hand-over, direct-resume loop of ordinary code) + full-drain check',
         EXPL + 'The reference model was validated against the unchanged tree over several seeds; order inside one operation\'s batch is deliberately not asserted.', SEQ + '; <=8 coroutines x <=6 steps over 18 step kinds (a thread pool with one occupied worker is the only other thread; zero schedule)', '3 C05'),
 'C06': ('stateful byte-decoded suspend-point histories (rapidcheck); oracle = reference model (multiset of handles per object) compared after every op, resume counters, allocation balance, ASan',
         EXPL + 'Sizes are steered across the inline->heap transition and every doubling.', SEQ + '; <=6 suspend points, <=40 handles, <=64 ops', '3 C06'),
 'C07': ('rapidcheck-generated contender programs x generated/swept thread schedules on a virtual runtime; oracle = critical-section holder invariant + double-resumption detector + ASan/UBSan/assert + deadlock detector',
         EXPL + 'All 1-preemption schedules of the swept programs are enumerated.', SC + '; <=4 contenders (coroutine, blocking thread, callback awaiter) x <=3 rounds; optionally one shared ownership object (lock/unlock adapter)', '3 C07'),
 'C08': ('same generator as C07; oracle over the recorded call history = interval-order FIFO, direct hand-off (no try_lock succeeds while a registered waiter waits), every request granted (deadlock/livelock detector), final try_lock succeeds',
         EXPL + 'The FIFO oracle is an invariant over the recorded history (logical clock ticks at call boundaries), sound for any interleaving.', SC + '; liveness is bounded (deadlock exact per schedule, livelock = step budget)', '3 C08'),
 'C09': ('stateful byte-decoded queue histories compared with a reference model after every op + producer/consumer threads on the virtual runtime (multiset / order oracle)', EXPL, SC + '; <=60 ops, <=3 producers x <=3 consumers', '3 C09'),
 'C10': ('stateful byte-decoded limited_queue histories (limits 1..4) compared with a reference back-pressure model after every op + producer/consumer threads on the virtual runtime', EXPL, SC + '; <=60 ops, <=3 producers x <=3 consumers', '3 C10'),
 'C11': ('rapidcheck-generated pool programs (7 submission kinds x 4 stop events; optionally the owner waits for every result before stopping, a job that keeps its worker until another submission has started, jobs using a private inner pool, run(async) coroutines that suspend on the pool) x generated/swept schedules + spurious cv wake-ups; oracle = ran+cancelled == 1 per job, worker identity, observable cancellation, no pending future/coroutine, closure guard counts, deadlock detector',
         EXPL, SC + '; <=3 workers, <=3 jobs', '3 C11'),
 'C12': ('stateful byte-decoded manual-mode scheduler histories vs a reference model + running scheduler (single-thread start, thread mode, thread-pool mode) under VIRTUAL TIME on the virtual runtime; oracle = exact wake-up times, deadline order, cancel results, zero-time destruction, deadlock detector',
         EXPL + 'Time is virtual: "never early / exactly at the time point when idle" is an equality check.', SC + '; <=60 history ops, <=4 sleepers; time only advances when every thread is idle', '3 C12'),
 'C13': ('rapidcheck-generated generator body scripts x consumer access-style sequences (blocking and coroutine consumers, operations completed by another thread) ; oracle = consumed sequence == yielded sequence, single end indication, exception position, argument echo, guard/instance/allocation balance',
         EXPL, SC + '; body <= 8 steps, 3 generator kinds, 7 access styles', '3 C13'),
 'C14': ('rapidcheck-generated sets of 0..5 scripted source generators (finite/infinite, sync/async via another thread, throwing, with argument) x consumer style x early destruction; oracle = per-source next-unseen-value check, end iff all ended, exception at end, argument routing, balance',
         EXPL, SC + '; <=5 sources, read bound 10 for infinite sources', '3 C14'),
 'C15': ('stateful byte-decoded signal histories (listeners, callbacks, 3 emission forms, handle copy/drop, cross-thread subscription) vs a reference model of the listeners waiting at each emission', EXPL, SC + '; <=40 ops; one collector call at a time (documented)', '3 C15'),
 'C16': ('stateful byte-decoded publisher histories (configs max/min 1..5/unlimited, 3 subscription modes, awaited/blocking/polled next, kick/leave/close) vs a reference stream model + publisher thread against subscriber threads on the virtual runtime',
         EXPL + 'Only the run up to a subscriber\'s first end-of-stream indication is judged (what follows is unspecified).', SC + '; <=50 ops, <=4 subscribers; thread scenarios: unlimited queue of int (incl. second publisher, late subscriber, kicker, copier threads) and bounded queue (max 1..3) of instance-counted values', '3 C16'),
 'C17': ('rapidcheck-generated shared_future programs (5 construction kinds x resolver thread x 1..3 worker threads with 5 actions) x generated/swept schedules; oracle = same result for all copies, single release, instance count alive exactly while needed, allocation balance, ASan', EXPL, SC + '; <=3 workers', '3 C17'),
 'C18': ('rapidcheck-generated adapter x outcome x timing (incl. concurrent resolution on another thread) cases; oracle = completion count == 1 with the right outcome, converter result/exception, tracking-storage alloc/release == 1, allocation balance, ASan', EXPL, SC + '; 11 adapter forms x 3 outcomes x 3 timings (converters returning values or references, int or instance-counted payloads)', '3 C18'),
 'C19': ('stateful byte-decoded create/complete histories per storage policy through a tracking allocator (live range registry, canaries, allocation counting) + two threads on one reusable_storage_mtsafe on the virtual runtime', EXPL, SC + '; <=40 ops, 6 frame sizes, 7 policies (attached-object factories may throw)', '3 C19'),
 'C20': ('stateful byte-decoded programs over futures/promises, waiters (coroutine frames in a pre-allocated arena), mutex hand-over, <=3-handle suspend points and a synchronous generator inside a measured region of the counting global operator new; metamorphic doubling; oracle = count == 0',
         EXPL + 'Domain: at most 3 coroutine waiters per future (documented allocation-free capacity of a suspend point).', SC + '; <=40 ops executed twice', '3 C20'),
}
NOT_YET = 'check not built yet in this round (design in DESIGN.md section 3); will be claimed once implemented and validated'

FUZZED_QUICK = {'C05', 'C06', 'C09', 'C10', 'C12', 'C16'}
FUZZED_THOROUGH = FUZZED_QUICK | {'C13', 'C14', 'C15', 'C18', 'C19', 'C20'}

def main():
    checks = []
    for pid in ALL:
        if pid not in CHECKS: continue
        tech, text, note, ref = CHECKS[pid]
        if pid in FUZZED_THOROUGH:
            tech += '; + coverage-guided libFuzzer over the same byte decoder (zero schedule) in the thorough tier' + (' and with a small budget in the quick tier' if pid in FUZZED_QUICK else '')
        checks.append(dict(
            property_id=pid,
            quick_cmd='./check %s --tier quick' % pid,
            thorough_cmd='./check %s --tier thorough' % pid,
            evidence_file='/verif/evidence/%s.json' % pid,
            replay_cmd_template='./check %s --replay {path}' % pid,
            engine='vrt+rapidcheck+libfuzzer' if pid in FUZZED_THOROUGH else 'vrt+rapidcheck',
            level_claimed=dict(category='exploration', text=text, design_ref='DESIGN.md ' + ref),
            level_note=note,
            technique=tech))
    m = dict(
        version=1,
        setup_cmd='./check --setup',
        hooks=dict(guard='COCLS_VERIF', enable='no source hook: the harness pre-includes engine/interpose.h which renames std::atomic/mutex/condition_variable/thread/deque/system_clock/stop_*/shared_ptr/weak_ptr to instrumented twins before including the unmodified cocls headers (-DCOCLS_VERIF is passed but nothing in /repo tests it)',
                   baseline_off_cmd='cmake --build /repo/_build && ctest --test-dir /repo/_build -j8 --timeout 900',
                   source_commits=[], add_only=True),
        engines=[dict(name='vrt+rapidcheck+libfuzzer', path='engine/', serves_properties=sorted(FUZZED_THOROUGH),
                      kind_free_text='the same harnesses driven additionally by libFuzzer (engine/fuzz_driver.cpp, clang++ -fsanitize=fuzzer,address,undefined): the input bytes are the program, crash artifacts are converted to .case files and must reproduce under the fork-per-case replay before they count'),
                 dict(name='vrt+rapidcheck', path='engine/', serves_properties=sorted(CHECKS),
                      kind_free_text='property-based testing: rapidcheck generators (programs, schedules, faults) -> fork/served case children running the real cocls code on a virtual runtime that owns the thread schedule and the clock; systematic 1-preemption sweep; sanitizers as part of the oracle')],
        checks=checks,
        notes='Seeds: VERIF_SEED; tiers: VERIF_TIER or --tier. Genuine defects found and repaired are listed in known_findings.txt (fixed: lines).',
        not_applicable=[dict(property_id=p, reason=NOT_YET) for p in ALL if p not in CHECKS],
    )
    json.dump(m, open(os.path.join(ROOT, 'MANIFEST.json'), 'w'), indent=1)
    print('MANIFEST.json: %d checks, %d not_applicable' % (len(checks), len(m['not_applicable'])))

if __name__ == '__main__':
    main()
