#!/usr/bin/env python3
"""writes /verif/MANIFEST.json from the table below (kept next to the checks so the two stay in step)"""
import json, os, sys
ROOT = os.path.dirname(os.path.dirname(os.path.abspath(__file__)))
sys.path.insert(0, ROOT)

ALL = ['C%02d' % i for i in range(1, 21)]

# property -> (technique, level text, level note, design ref)
CHECKS = {
 'C07': ('rapidcheck-generated contender programs x generated/swept thread schedules on a virtual runtime; oracle = critical-section holder invariant + double-resumption detector + ASan/UBSan/assert + deadlock detector',
         'Exploration: every generated (program, schedule) pair is executed against the real mutex under a scheduler the harness owns; all 1-preemption schedules of the swept programs are enumerated. Holds on everything explored; no absence claim.',
         'sequentially consistent interleavings only; <=4 contenders x <=3 rounds; scheduling points at interposed std primitives and harness yields', '3 C07'),
}
NOT_YET = 'check not built yet in this round (design in DESIGN.md section 3); will be claimed once implemented and validated'

def main():
    checks = []
    for pid in ALL:
        if pid not in CHECKS: continue
        tech, text, note, ref = CHECKS[pid]
        checks.append(dict(
            property_id=pid,
            quick_cmd='./check %s --tier quick' % pid,
            thorough_cmd='./check %s --tier thorough' % pid,
            evidence_file='/verif/evidence/%s.json' % pid,
            replay_cmd_template='./check %s --replay {path}' % pid,
            engine='vrt+rapidcheck',
            level_claimed=dict(category='exploration', text=text, design_ref='DESIGN.md ' + ref),
            level_note=note,
            technique=tech))
    m = dict(
        version=1,
        setup_cmd='./check --setup',
        hooks=dict(guard='COCLS_VERIF', enable='no source hook: the harness pre-includes engine/interpose.h which renames std::atomic/mutex/condition_variable/thread/deque/system_clock/stop_* to instrumented twins before including the unmodified cocls headers (-DCOCLS_VERIF is passed but nothing in /repo tests it)',
                   baseline_off_cmd='cmake --build /repo/_build && ctest --test-dir /repo/_build -j8 --timeout 900',
                   source_commits=[], add_only=True),
        engines=[dict(name='vrt+rapidcheck', path='engine/', serves_properties=sorted(CHECKS),
                      kind_free_text='property-based testing: rapidcheck generators (programs, schedules, faults) -> fork/served case children running the real cocls code on a virtual runtime that owns the thread schedule and the clock; systematic 1-preemption sweep; sanitizers as part of the oracle')],
        checks=checks,
        notes='Seeds: VERIF_SEED; tiers: VERIF_TIER or --tier. Genuine defects found and repaired are listed in known_findings.txt (fixed: lines).',
        not_applicable=[dict(property_id=p, reason=NOT_YET) for p in ALL if p not in CHECKS],
    )
    json.dump(m, open(os.path.join(ROOT, 'MANIFEST.json'), 'w'), indent=1)
    print('MANIFEST.json: %d checks, %d not_applicable' % (len(checks), len(m['not_applicable'])))

if __name__ == '__main__':
    main()
