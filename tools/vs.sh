#!/bin/bash
# tools/vs.sh <seeded-name> <props...>: run the quick checks against HEAD + seeded/<name>/patch.diff (scratch copy under /tmp, removed afterwards)
name=$1; shift
mut=/tmp/mut-$name; rm -rf $mut; mkdir -p $mut
git -C /repo archive HEAD src/cocls | tar -x -C $mut
(cd $mut && patch -p1 -s < /verif/seeded/$name/patch.diff) || echo "PATCH DOES NOT APPLY ON HEAD"
cd /verif
for p in "$@"; do VERIF_REPO=$mut timeout 1800 ./check $p | grep -E "^$p tier|failure:|VIOLATION" | cut -c1-260 | head -5; done
rm -rf $mut
