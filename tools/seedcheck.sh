#!/bin/bash
# verify each replay seed: passes on HEAD, fails on HEAD with its fix reverted
cd /verif
rm -rf /tmp/rv; git clone -q /repo /tmp/rv
while read prop seed commit; do
  [ "$prop" = "#" ] && continue
  f=replay/$prop/$seed
  [ -f "$f" ] || { echo "MISSING $f"; continue; }
  a=$(./check $prop --replay $f 2>&1 | grep -cE "REPLAY-PASS")
  (cd /tmp/rv && git checkout -q -f HEAD && git reset -q --hard HEAD && git revert -n $commit >/dev/null 2>&1) || { echo "$f: REVERT-CONFLICT $commit"; (cd /tmp/rv && git revert --abort 2>/dev/null; git reset -q --hard HEAD); continue; }
  b=$(VERIF_REPO=/tmp/rv ./check $prop --replay $f 2>&1 | grep -cE "REPLAY-FAIL")
  echo "$f: pass_on_head=$a fail_on_revert($commit)=$b"
  (cd /tmp/rv && git reset -q --hard HEAD)
done <<LIST
C03 d1-ready-without-release.tsan.case 39649ad
C03 d11-mtsafe-storage-relaxed.tsan.case 1b30277
C03 d16-shared-future-ctor-relaxed-pending.tsan.case 1a43c04
C03 mutex-assert-before-acquire.tsan.case deb67df
C03 d20-pool-current-unlocked-exit.tsan.case 4b05f76
C03 d21-publisher-position-unlocked.tsan.case 1c9c988
C17 d8-default-get-promise.case 4eb6694
C17 d19-shift-pending-all-handles-dropped.case a80c80b
C18 d15-void-source-conv-loses-exception.case 2354445
# C19 d18-extra-object-misaligned.case a583df8   (git revert conflicts with the later D24 repair of the same function; verified by hand on 2026-09-29 with extra_offset() returning sz: REPLAY-FAIL)
C06 d17-self-handle-popped-and-queued.case c198892
C06 d22-self-merge-loses-handles.case e0dcb6a
C07 d2-lost-grant-deadlock.case 6923116
C07 d2-uaf-after-publish.case 6923116
C10 d3-deadlock.case 1dee2ab
C10 d3-duplicate-item.case 1dee2ab
C10 d3-first-push-blocks.case 1dee2ab
C11 d10-handed-over-coroutine-forgotten-on-stop.case f84a4bc
C12 d4-remove-on-empty-heap.case ffdbc3f
C12 d5-cancel-misses-reused-id.case 997270c
C12 d6-interval-stop-self-deadlock.case 7b30d69
C12 d7-lost-stop-notification.case c2183fb
C16 d13-blocking-next-no-fetch.case f92182b
C16 d14-skip-mode-duplicate.case f4dcbf9
C16 d9-close-races-next.case 86608c2
C16 d23-copy-of-parked-subscriber-threads.case 3558ad8
C16 d23-copy-of-parked-subscriber-history.case 3558ad8
C19 d24-extra-object-factory-throws-block-leaked.case d6608de
LIST
rm -rf /tmp/rv
