# more mutants (registered into tools/mutants.py)
def register(mut):
    mut('sp-growth-capacity', 'suspend_point.h',
        '''                //store new capacity
                _ext._capacity = count*2;''',
        '''                //store new capacity
                _ext._capacity = count*2+1;''', ['C06'])
    mut('sp-merge-leak', 'suspend_point.h',
        '''                add(other._ext._handles[i]);
            }
            delete [] other._ext._handles;''',
        '''                add(other._ext._handles[i]);
            }''', ['C06'])
    mut('sp-move-not-zeroing', 'suspend_point.h',
        '''            _local = other._local;
        }
        other._count_flag = 0;''',
        '''            _local = other._local;
        }
        if (_count_flag & 1) other._count_flag = 0;''', ['C06'])
    mut('sp-pop-off-by-one', 'suspend_point.h',
        '''            return std::coroutine_handle<>::from_address(from[idx-1]);''',
        '''            return std::coroutine_handle<>::from_address(from[idx > 1 ? idx-2 : 0]);''', ['C06'])
    mut('sp-await-drops-tail', 'suspend_point.h',
        '''            for (auto x: *this) {
                me_included |= x == me_addr;
                coro_queue::instance->push(std::coroutine_handle<>::from_address(x));
            }''',
        '''            for (auto x: *this) {
                me_included |= x == me_addr;
                if (size() > 5 && x == *(end()-1)) continue;
                coro_queue::instance->push(std::coroutine_handle<>::from_address(x));
            }''', ['C06'])
