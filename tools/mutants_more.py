# more mutants (registered into tools/mutants.py)
def register(mut):
    mut('sp-growth-capacity', 'suspend_point.h',
        '''                //store new capacity
                _ext._capacity = count*2;''',
        '''                //store new capacity
                _ext._capacity = count*2+1;''', ['C06'])
    mut('sp-merge-leak', 'suspend_point.h',
        '''                add(other._ext._handles[i]);
            }
            delete [] other._ext._handles;''',
        '''                add(other._ext._handles[i]);
            }''', ['C06'])
    mut('sp-move-not-zeroing', 'suspend_point.h',
        '''            _local = other._local;
        }
        other._count_flag = 0;''',
        '''            _local = other._local;
        }
        if (_count_flag & 1) other._count_flag = 0;''', ['C06'])
    mut('sp-pop-off-by-one', 'suspend_point.h',
        '''            return std::coroutine_handle<>::from_address(from[idx-1]);''',
        '''            return std::coroutine_handle<>::from_address(from[idx > 1 ? idx-2 : 0]);''', ['C06'])
    mut('sp-await-drops-tail', 'suspend_point.h',
        '''            for (auto x: *this) {
                me_included |= x == me_addr;
                coro_queue::instance->push(std::coroutine_handle<>::from_address(x));
            }''',
        '''            for (auto x: *this) {
                me_included |= x == me_addr;
                if (size() > 5 && x == *(end()-1)) continue;
                coro_queue::instance->push(std::coroutine_handle<>::from_address(x));
            }''', ['C06'])
    mut('queue-push-enqueues-while-consumer-waits', 'queue.h',
        '''        std::unique_lock lk(_mx);
        if (!_awaiters.empty()) {
            promise<T> p = std::move(_awaiters.front());''',
        '''        std::unique_lock lk(_mx);
        if (!_awaiters.empty() && _awaiters.size() < 2) {
            promise<T> p = std::move(_awaiters.front());''', ['C09'])
    mut('queue-void-pop-saturates-wrong', 'queue.h',
        '''        void pop() {_sz = std::max<std::size_t>(1, _sz)-1;}''',
        '''        void pop() {_sz = std::max<std::size_t>(2, _sz)-2;}''', ['C09'])
    mut('limited-limit-off-by-one', 'queue.h',
        '''        } else if (this->_queue.size() >= _limit) {''',
        '''        } else if (this->_queue.size() > _limit) {''', ['C10'])
    mut('limited-pop-completes-before-moving', 'queue.h',
        '''                    auto front = std::move(_blocked.front());
                    this->_queue.push(std::move(front.first));
                    auto p = std::move(front.second);
                    _blocked.pop();''',
        '''                    auto front = std::move(_blocked.front());
                    auto p = std::move(front.second);
                    _blocked.pop();''', ['C10'])
    mut('limited-unblock-push-newest', 'queue.h',
        '''        auto front = std::move(_blocked.front());
        _blocked.pop();
        lk.unlock();
        return front.second.set_exception(e);''',
        '''        auto front = std::move(_blocked.back());
        { decltype(_blocked) tmp; while (_blocked.size() > 1) { tmp.push(std::move(_blocked.front())); _blocked.pop(); } _blocked = std::move(tmp); }
        lk.unlock();
        return front.second.set_exception(e);''', ['C10'])
    mut('sched-heap-reversed', 'scheduler.h',
        '''        return a._tp > b._tp;''',
        '''        return a._tp < b._tp;''', ['C12'])
    mut('sched-expired-strict', 'scheduler.h',
        '''        while (!_scheduled.empty() && (_scheduled[0]._tp <= now || !_scheduled[0]._p)) {''',
        '''        while (!_scheduled.empty() && (_scheduled[0]._tp < now || !_scheduled[0]._p)) {''', ['C12'])
    mut('sched-no-notify-on-earlier', 'scheduler.h',
        '''          bool ntf = _scheduled.empty() || _scheduled[0]._tp > tp;''',
        '''          bool ntf = _scheduled.empty();''', ['C12'])
    mut('sched-stop-notify-unlocked', 'scheduler.h',
        '''            std::lock_guard _(_mx);
            _cond.notify_all();''',
        '''            _cond.notify_all();''', ['C12'])
    mut('sched-cancel-wrong-default-exception', 'scheduler.h',
        '''        return cancel(id, std::make_exception_ptr(await_canceled_exception()));''',
        '''        return cancel(id, std::make_exception_ptr(value_not_ready_exception()));''', ['C12'])
    mut('pool-enqueue-ignores-exit', 'thread_pool.h',
        '''        if (!_exit) {
            _queue.push(std::move(fn));
            _cond.notify_one();
        }''',
        '''        {
            _queue.push(std::move(fn));
            _cond.notify_one();
        }''', ['C11'])
    mut('pool-no-notify', 'thread_pool.h',
        '''            _queue.push(std::move(fn));
            _cond.notify_one();''',
        '''            _queue.push(std::move(fn));
            if (_queue.size() > 1) _cond.notify_one();''', ['C11'])
    mut('pool-deleter-no-resume', 'thread_pool.h',
        '''                coro_queue::resume(x->_h);
            };''',
        '''                (void)x;
            };''', ['C11'])
    mut('pool-stop-joins-self', 'thread_pool.h',
        '''            if (t.get_id() == me) {''',
        '''            if (false && t.get_id() == me) {''', ['C11'])
    mut('pool-worker-skips-exit-check', 'thread_pool.h',
        '''            if (_exit) break;
            auto h = std::move(_queue.front());''',
        '''            if (_exit && _queue.empty()) break;
            auto h = std::move(_queue.front());''', ['C11'])
    mut('pool-resume-raw-handle', 'thread_pool.h',
        '''            enqueue([sp = suspend_point<void>(spt.pop())]() mutable {sp.clear();});''',
        '''            enqueue([h = spt.pop()]() mutable {coro_queue::resume(h);});''', ['C11'])
    mut('gen-done-never-set', 'generator.h',
        '''        void return_void() {
            _done = true;
        }''',
        '''        void return_void() {
        }''', ['C13'])
    mut('gen-future-prefers-value', 'generator.h',
        '''            if (done()) return _awaiting(drop);
            else if (_exp) return _awaiting(_exp);
            else return _awaiting(*_ret);''',
        '''            if (done()) return _awaiting(drop);
            else if (_ret) return _awaiting(*_ret);
            else return _awaiting(_exp);''', ['C13'])
    mut('gen-arg-not-updated', 'generator.h',
        '''        void set_arg(param_Arg arg) {
            _arg = &arg;
        }''',
        '''        void set_arg(param_Arg arg) {
            static auto first = &arg;
            _arg = first;
        }''', ['C13'])
    mut('gen-final-keeps-ret', 'generator.h',
        '''        yield_suspend final_suspend() noexcept {
            _ret = nullptr;
            return {};''',
        '''        yield_suspend final_suspend() noexcept {
            return {};''', ['C13'])
    mut('gen-sync-block-not-reset', 'generator.h',
        '''            _block.store(false, std::memory_order::relaxed);''',
        '''            ''', ['C13'])
    mut('gen-iterator-skips', 'iterator.h',
        '''    generator_iterator &operator++() {
        _next = _gen->next();
        return *this;''',
        '''    generator_iterator &operator++() {
        _next = _gen->next();
        if (_next && false) _next = _gen->next();
        return *this;''', [])
    mut('agg-controller-no-drain', 'generator_aggregator.h',
        '''        while (_count>1) {
            _queue.pop().wait();
            _count--;
        }''',
        '''        while (_count>100) {
            _queue.pop().wait();
            _count--;
        }''', ['C14'])
    mut('agg-no-fin-on-exception', 'generator_aggregator.h',
        '''                exp = std::current_exception();
                cnt.fin();''',
        '''                exp = std::current_exception();''', ['C14'])
    mut('agg-recharge-before-yield', 'generator_aggregator.h',
        '''                    co_yield g.value();
                    gcb->charge();''',
        '''                    auto &vv = g.value();
                    int copy = vv;
                    gcb->charge();
                    co_yield copy;''', ['C14'])
    mut('agg-exception-swallowed', 'generator_aggregator.h',
        '''    if (exp) std::rethrow_exception(exp);''',
        '''    if (exp && false) std::rethrow_exception(exp);''', ['C14'])
    mut('agg-arg-to-all-only-first', 'generator_aggregator.h',
        '''                    auto arg = co_yield g.value();
                    gcb->charge(arg);''',
        '''                    auto arg = co_yield g.value();
                    static auto first = arg;
                    gcb->charge(first);''', ['C14'])
    mut('signal-state-no-notify', 'signal.h',
        '''        ~state() {
            _cur_val = nullptr;
            notify_awaiters();
        }''',
        '''        ~state() {
            _cur_val = nullptr;
        }''', ['C15'])
    mut('signal-callback-no-resubscribe', 'signal.h',
        '''                    if (_fn(this->await_resume())) {
                        this->subscribe(st->_chain);
                    } else {''',
        '''                    if (_fn(this->await_resume()) && false) {
                        this->subscribe(st->_chain);
                    } else {''', ['C15'])
    mut('signal-lvalue-not-stored', 'signal.h',
        '''        suspend_point<void> operator()(lvalue_param val) const {
            _state->_cur_val = &val;''',
        '''        suspend_point<void> operator()(lvalue_param val) const {
            if (!_state->_cur_val) _state->_cur_val = &val;''', ['C15'])
    mut('chain-drops-tail', 'awaiter.h',
        '''    static suspend_point<void> resume_chain_lk(awaiter *chain) {
        suspend_point<void> ret;
        while (chain) {''',
        '''    static suspend_point<void> resume_chain_lk(awaiter *chain) {
        suspend_point<void> ret;
        int n = 0;
        while (chain && ++n < 4) {''', ['C15', 'C02'])
    mut('signal-disconnected-emitter-suspends', 'signal.h',
        '''                this->subscribe(s->_chain);
                return true;
            }  else {
                return false;
            }''',
        '''                this->subscribe(s->_chain);
                return true;
            }  else {
                return true;
            }''', ['C15'])
    mut('pub-trim-off-by-one', 'publisher.h',
        '''                     need_len = std::max(need_len, _pos - x._pos);''',
        '''                     need_len = std::max(need_len, _pos - x._pos - 2);''', ['C16'])
    mut('pub-advance-ignores-closed', 'publisher.h',
        '''            if (l._pos+1 == _pos && !_closed) return false;''',
        '''            if (l._pos+1 == _pos) return false;''', ['C16'])
    mut('pub-no-wakeup', 'publisher.h',
        '''             for (awaiter *x: wk) x->resume();''',
        '''             for (awaiter *x: wk) if (wk.size() < 2) x->resume();''', ['C16'])
    mut('pub-copy-from-start', 'publisher.h',
        '''            auto r = subscribe_lk(sub, _regs[h]._pos);''',
        '''            auto r = subscribe_lk(sub, _regs[h]._pos > 0 ? _regs[h]._pos - 1 : 0);''', ['C16'])
    mut('pub-kick-not-flagged', 'publisher.h',
        '''                iter->_kicked =true;''',
        '''                iter->_kicked =false;''', ['C16'])
    mut('shared-tracer-not-charged-when-pending', 'shared_future.h',
        '''        if (_ptr->pending()) _ptr->resolve_tracer.charge(_ptr);''',
        '''        if (!_ptr->pending()) _ptr->resolve_tracer.charge(_ptr);''', ['C17'])
    mut('shared-tracer-no-reset', 'shared_future.h',
        '''            static_cast<resolve_cb *>(x)->_ptr = nullptr;
            return {};''',
        '''            (void)x;
            return {};''', ['C17'])
    mut('shared-promise-fn-no-tracer', 'shared_future.h',
        '''        :_ptr(std::make_shared<future_internal>(std::forward<Fn>(fn))) {

        _ptr->resolve_tracer.charge(_ptr);''',
        '''        :_ptr(std::make_shared<future_internal>(std::forward<Fn>(fn))) {
''', ['C17'])
    mut('discard-no-self-delete-when-ready', 'future.h',
        '''    auto x = new Awt(std::forward<Fn>(fn), w);
    if (!w) x->resume();''',
        '''    auto x = new Awt(std::forward<Fn>(fn), w);
    if (!w) (void)x;''', ['C18'])
    mut('future-with-cb-delete-before-call', 'future.h',
        '''            _this->_fn(*_this);
            delete _this;''',
        '''            auto f = std::move(_this->_fn);
            delete _this;
            f(*_this);''', ['C18'])
    mut('conv-drops-converter-exception', 'future_conv.h',
        '''            return p(fn(*_this->_fut, ctx));
        } catch (...) {
            return p(std::current_exception());''',
        '''            return p(fn(*_this->_fut, ctx));
        } catch (...) {
            return p(cocls::drop);''', ['C18'])
    mut('callback-await-swallows-exception', 'callback_awaiter.h',
        '''    } catch (...) {
        fn(await_result<RetVal>{});
    }''',
        '''    } catch (...) {
    }''', ['C18'])
    mut('call-fn-awaiter-double', 'future.h',
        '''        _fut << std::forward<Fn>(xfn);
        if (!_fut.subscribe(this)) {
            this->resume();
        }''',
        '''        _fut << std::forward<Fn>(xfn);
        if (!_fut.subscribe(this)) {
            this->resume();
            this->resume();
        }''', ['C18'])
    mut('reusable-capacity-ge', 'coro_storage.h',
        '''        if (sz > _capacity) {
            ::operator delete (_ptr);''',
        '''        if (sz >= _capacity) {
            ::operator delete (_ptr);''', ['C19'])
    mut('mtsafe-busy-not-taken', 'coro_storage.h',
        '''        if (_busy.exchange(true, std::memory_order_relaxed)) {''',
        '''        if (_busy.load(std::memory_order_relaxed) && _busy.exchange(true, std::memory_order_relaxed)) {''', ['C19'])
    mut('mtsafe-never-released', 'coro_storage.h',
        '''            me->_busy.store(false, std::memory_order_relaxed);''',
        '''            (void)me;''', ['C19'])
    mut('stack-flag-inverted', 'alloca_storage.h',
        '''        if (*flag) ::operator delete(ptr);''',
        '''        if (!*flag) ::operator delete(ptr);''', ['C19'])
    mut('extra-destroyed-at-wrong-offset', 'coro_storage.h',
        '''        T *x = reinterpret_cast<T *>(static_cast<std::uint8_t *>(ptr)+sz);
        x->~T();''',
        '''        T *x = reinterpret_cast<T *>(static_cast<std::uint8_t *>(ptr)+sz);
        if (sz > 1000) x->~T();''', ['C19'])
    mut('reusable-buffer-short', 'coro_storage.h',
        '''        std::size_t items = (sz+itemsz-1)/itemsz;''',
        '''        std::size_t items = (sz+itemsz-1)/itemsz - (sz > 1000 ? 16 : 0);''', ['C19'])
    mut('sp-inline-count-2', 'suspend_point.h',
        '''    static constexpr int inline_count = 3;''',
        '''    static constexpr int inline_count = 2;''', ['C20'])
    mut('chain-uses-vector', 'awaiter.h',
        '''    static suspend_point<void> resume_chain_lk(awaiter *chain) {
        suspend_point<void> ret;
        while (chain) {''',
        '''    static suspend_point<void> resume_chain_lk(awaiter *chain) {
        suspend_point<void> ret;
        std::vector<awaiter *> tmp; for (auto x = chain; x; x = x->_next) tmp.push_back(x);
        while (chain) {''', ['C20'])
    mut('mutex-ownership-shared-ptr', 'mutex.h',
        '''        suspend_point<void> release() {
            suspend_point<void> ret;''',
        '''        suspend_point<void> release() {
            auto dbg = std::make_shared<int>(1);
            suspend_point<void> ret;''', ['C20'])
    mut('generator-next-allocates', 'generator.h',
        '''        void next_sync() {''',
        '''        void next_sync() {
            std::unique_ptr<int> scratch(new int(0));''', ['C20'])
    mut('async-dtor-no-destroy', 'async.h',
        '''    ~async() {
        if (_h) _h.destroy();
    }''',
        '''    ~async() {
    }''', ['C04'])
    mut('async-start-on-failed-claim', 'async.h',
        '''        if (promise._future) {
            return start_coro();
        }  else {
            return nullptr;
        }''',
        '''        return start_coro();''', ['C04'])
    mut('async-final-no-destroy', 'async.h',
        '''            //now we can destroy our frame
            me.destroy();''',
        '''            //now we can destroy our frame
            if (f) me.destroy();''', ['C04'])
    mut('async-coawait-not-binding', 'async.h',
        '''            this->_awaiter.store(this, std::memory_order_relaxed);
            p._future = this;
            return start_handle;''',
        '''            this->_awaiter.store(this, std::memory_order_relaxed);
            if (false) p._future = this;
            return start_handle;''', ['C04'])
    mut('async-exception-dropped', 'async.h',
        '''    void unhandled_exception() {
        if (_future) _future->set(std::current_exception());
    }''',
        '''    void unhandled_exception() {
    }''', ['C04'])
    mut('queue-lifo-flush', 'coro_queue.h',
        '''                auto h = std::move(_queue.front());
                _queue.pop_front();
                h.resume();''',
        '''                auto h = std::move(_queue.back());
                _queue.pop_back();
                h.resume();''', ['C05'])
    mut('pause-not-requeue-tail', 'coro_queue.h',
        '''        auto &queue = coro_queue::instance->_queue;
        queue.push_back(h);
        h = queue.front();
        queue.pop_front();
        return h;''',
        '''        auto &queue = coro_queue::instance->_queue;
        queue.push_front(h);
        h = queue.front();
        queue.pop_front();
        return h;''', ['C05'])
    mut('sp-suspend-now-resumes-immediately', 'suspend_point.h',
        '''            if (coro_queue::is_active()) {
                for (auto x: *this) {
                    coro_queue::instance->push(std::coroutine_handle<>::from_address(x));
                }
            } else {''',
        '''            if (coro_queue::is_active() && size() > 1) {
                for (auto x: *this) {
                    coro_queue::instance->push(std::coroutine_handle<>::from_address(x));
                }
            } else {''', ['C05'])
    mut('trailer-no-flush', 'coro_queue.h',
        '''        auto x = trailer([&]{
            instance->flush_queue();
            instance = prev;
        });''',
        '''        auto x = trailer([&]{
            if (instance->_queue.size() < 2) instance->flush_queue();
            instance = prev;
        });''', ['C05'])
    mut('sp-await-self-not-last', 'suspend_point.h',
        '''            //if not, include me.
            if (!me_included) {
                coro_queue::instance->push(h);
            }
            clear_internal();
            return out;''',
        '''            //if not, include me.
            if (!me_included) {
                coro_queue::instance->_queue.push_front(h);
            }
            clear_internal();
            return out;''', ['C05'])
