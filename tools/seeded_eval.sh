#!/bin/bash
# tools/seeded_eval.sh <name> <worktree> <prop> [more props...]
# confirms a seeded change (demo fails with / passes without, upstream tests pass with it) and
# runs the given checks against the worktree (VERIF_REPO); copies the artefacts to seeded/<name>/
name=$1; wt=$2; shift 2; props="$@"
cd "$(dirname "$0")/.."
out=seeded/$name; mkdir -p $out/demo
( cd $wt && git diff -- src > patch.diff )
cp $wt/patch.diff $out/patch.diff; cp -r $wt/demo/. $out/demo/ 2>/dev/null; cp $wt/NOTES.md $out/NOTES.md 2>/dev/null
rm -f $out/demo/demo $out/demo/*.o $out/demo/a.out
echo "== demo WITH the change"; ( cd $wt && timeout 600 bash demo/run.sh > /tmp/seeded_demo_with.log 2>&1; echo "exit=$?" ) | tee /tmp/seeded_with.rc
echo "== demo WITHOUT the change"; ( cd $wt && git apply -R patch.diff && timeout 900 bash demo/run.sh > /tmp/seeded_demo_without.log 2>&1; echo "exit=$?"; git apply patch.diff ) | tee /tmp/seeded_without.rc
echo "== upstream tests WITH the change"; ( cd $wt && cmake -G Ninja -B _build -S . > /dev/null 2>&1; cmake --build _build 2>&1 | tail -1; ctest --test-dir _build -j4 --timeout 900 2>&1 | grep -E "tests passed|Failed" ) | tee /tmp/seeded_ctest.log
for p in $props; do
  echo "== check $p against the change"
  VERIF_REPO=$wt timeout 1800 ./check $p --tier quick 2>&1 | grep -E "^$p tier|failure:|VIOLATION|FLAKY|BUILD" | cut -c1-260 | head -6
done
