#!/bin/bash
# tools/ev.sh <seeded-name> <worktree> <props...>: evaluate an independently written change (HEAD + its patch, in a scratch copy)
name=$1; wt=$2; shift 2
mut=/tmp/mut-$name; rm -rf $mut; mkdir -p $mut
git -C /repo archive HEAD src/cocls | tar -x -C $mut
(cd $wt && git diff -- src > patch.diff)
(cd $mut && patch -p1 -s < $wt/patch.diff) || echo "PATCH DOES NOT APPLY ON HEAD"
cd /verif
tools/seeded_eval.sh $name $wt 2>&1 | grep -E "exit=|tests passed|Failed" | tr '\n' ' '; echo
for p in "$@"; do VERIF_REPO=$mut timeout 1800 ./check $p | grep -E "^$p tier|failure:|VIOLATION" | cut -c1-220 | head -4; done
rm -rf $mut
