#!/bin/bash
# run every quick check once (VERIF_SEED honoured); prints one line per check
cd "$(dirname "$0")/.."
rc=0
for p in C01 C02 C03 C04 C05 C06 C07 C08 C09 C10 C11 C12 C13 C14 C15 C16 C17 C18 C19 C20; do
  lim=1500; [ "${VERIF_TIER:-quick}" = thorough ] && lim=5400
  out=$(timeout $lim ./check $p --tier ${VERIF_TIER:-quick} 2>&1); r=$?
  echo "$out" | grep -E "^$p tier|VIOLATION|KNOWN-FINDING|FLAKY|BUILD-FAILED" | head -4
  [ $r -ne 0 ] && { echo "  -> exit $r"; rc=1; }
done
exit $rc
