#!/usr/bin/env python3
"""rewrites the table of independently seeded changes in DESIGN.md (section 8) from seeded/*/meta.json"""
import json, glob, os, re
ROOT = os.path.dirname(os.path.dirname(os.path.abspath(__file__)))
rows = []
n = caught = missed = 0
for d in sorted(glob.glob(os.path.join(ROOT, 'seeded', '*', 'meta.json'))):
    m = json.load(open(d)); name = os.path.basename(os.path.dirname(d))
    own = m['checks'].get(m['property'], '')
    n += 1
    if 'missed' in own.lower(): missed += 1
    rows.append('| %s | %s | %s |' % (name, m['needs'].replace('|', '/'), '; '.join('%s: %s' % (k, v.replace('|', '/').replace('MISSED at first', '**missed** at first')) for k, v in m['checks'].items())))
p = os.path.join(ROOT, 'DESIGN.md'); s = open(p).read()
head = '| id | what it needs to manifest | result |\n|---|---|---|\n'
i = s.index(head); j = s.index('\n\n', i)
s = s[:i] + head + '\n'.join(rows) + s[j:]
open(p, 'w').write(s)
print(n, 'changes,', missed, 'missed at first by the check of their own property')
