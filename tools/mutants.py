#!/usr/bin/env python3
"""mutants.py - sensitivity self-test: apply hand-written mutants of cocls (each compiles
and is meant to pass the upstream tests) to a scratch copy of /repo/src and run the checks
that are expected to catch them.   tools/mutants.py [name ...]   (default: all)
Nothing is written to /repo; the scratch copy lives under /tmp and is removed afterwards."""
import os, sys, shutil, subprocess, time, re

ROOT = os.path.dirname(os.path.dirname(os.path.abspath(__file__)))
SCRATCH = '/tmp/verif-mutants-%d' % os.getpid()

# name: (file, old, new, [properties expected to catch it])
M = {}
def mut(name, file, old, new, props):
    M[name] = (file, old, new, props)

mut('mutex-ready-nonatomic', 'mutex.h',
    '''        awaiter *n = nullptr;
        bool ok = _requests.compare_exchange_strong(n, doorman());''',
    '''        bool ok = _requests.load() == nullptr;
        if (ok) _requests.store(doorman());''', ['C07'])
mut('mutex-lifo', 'mutex.h',
    '''            x->_next = _queue;
            _queue= x;''',
    '''            x->_next = nullptr;
            if (!_queue) _queue = x; else { awaiter *t = _queue; while (t->_next) t = t->_next; t->_next = x; }''', ['C08'])
mut('mutex-read-after-publish', 'mutex.h',
    '''        if (prev == nullptr) [[likely]] {''',
    '''        if (aw->_next == nullptr) [[likely]] {''', ['C07'])
mut('promise-claim-nonatomic', 'future.h',
    '''        return _owner.exchange(nullptr, std::memory_order_relaxed);''',
    '''        auto m = _owner.load(std::memory_order_relaxed);
        if (m) _owner.store(nullptr, std::memory_order_relaxed);
        return m;''', ['C01'])
mut('promise-dtor-no-resolve', 'future.h',
    '''        auto m = _owner.load(std::memory_order_relaxed);
        if (m) m->resolve();
''',
    '''        auto m = _owner.load(std::memory_order_relaxed);
        (void)m;
''', ['C01', 'C02'])
mut('resolve-before-set', 'future.h',
    '''    suspend_point<bool> set_value(Args && ... args) {
        auto m = claim();
        if (m) {
            m->set(std::forward<Args>(args)...);
            return suspend_point<bool>(m->resolve(), true);
        }''',
    '''    suspend_point<bool> set_value(Args && ... args) {
        auto m = claim();
        if (m) {
            auto sp = m->resolve();
            m->set(std::forward<Args>(args)...);
            return suspend_point<bool>(std::move(sp), true);
        }''', ['C02'])
mut('subscribe-ignores-ready', 'awaiter.h',
    '''            if (_next == &ready_state) {
                _next = nullptr;''',
    '''            if (false && _next == &ready_state) {
                _next = nullptr;''', ['C02'])
mut('chain-read-next-after-resume', 'awaiter.h',
    '''            auto y = chain;
            chain = chain->_next;
            y->_next = nullptr;
            ret << y->resume();''',
    '''            auto y = chain;
            ret << y->resume();
            chain = y->_next;''', ['C02'])
mut('dropped-reports-not-ready', 'future.h',
    '''    reference value() {
        switch (_state) {
            default:
                if (pending())
                    throw value_not_ready_exception();
                else
                    throw await_canceled_exception();''',
    '''    reference value() {
        switch (_state) {
            default:
                    throw value_not_ready_exception();''', ['C01'])

try:
    sys.path.insert(0, os.path.join(ROOT, 'tools'))
    from mutants_more import register
    register(mut)
except ImportError:
    pass


def run(name):
    file, old, new, props = M[name]
    shutil.rmtree(SCRATCH, ignore_errors=True)
    os.makedirs(SCRATCH + '/src')
    shutil.copytree('/repo/src/cocls', SCRATCH + '/src/cocls')
    p = os.path.join(SCRATCH, 'src', 'cocls', file)
    s = open(p).read()
    if s.count(old) != 1:
        print('MUTANT %-34s NOT-APPLICABLE (pattern found %d times in %s)' % (name, s.count(old), file))
        return None
    open(p, 'w').write(s.replace(old, new))
    env = dict(os.environ, VERIF_REPO=SCRATCH)
    res = {}
    for pr in props:
        t0 = time.time()
        try:
            r = subprocess.run([os.path.join(ROOT, 'check'), pr, '--tier', 'quick'], env=env, stdout=subprocess.PIPE, stderr=subprocess.STDOUT, text=True, timeout=1500)
            out = r.stdout
            rc = r.returncode
        except subprocess.TimeoutExpired as e:
            out = (e.stdout or b'').decode() if isinstance(e.stdout, bytes) else (e.stdout or '')
            rc = -9
        fl = [l for l in out.splitlines() if l.startswith('  failure:')]
        verdict = 'CAUGHT' if rc == 1 else ('BUILD-FAIL' if rc == 2 else ('TIMEOUT' if rc == -9 else 'MISSED'))
        res[pr] = verdict
        print('MUTANT %-34s %s %-10s %5.0fs  %s' % (name, pr, verdict, time.time() - t0, (fl[0][11:150] if fl else '')))
        sys.stdout.flush()
    shutil.rmtree(SCRATCH, ignore_errors=True)
    return res


if __name__ == '__main__':
    names = sys.argv[1:] or list(M)
    if names == ['--list']:
        for n, (f, o, nw, p) in M.items():
            print(n, f, p)
        sys.exit(0)
    # restrict to mutants for given properties: tools/mutants.py --prop C07
    if names and names[0] == '--prop':
        want = set(names[1:])
        names = [n for n in M if want & set(M[n][3])]
    for n in names:
        run(n)
