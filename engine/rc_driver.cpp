// rc_driver.cpp - main(): rapidcheck campaign / systematic schedule sweep / replay.
// Does not include any cocls header: built once per engine version.
#include "runtime.h"
#include <rapidcheck.h>
#include <cstdio>
#include <cstring>
#include <cstdlib>
#include <map>
#include <unordered_map>
#include <unordered_set>
#include <algorithm>
#include <chrono>
#include <unistd.h>

using rt::Case; using rt::Result;

namespace {

struct Failure { std::string path, msg; int code; bool flaky; };

struct Agg {
    uint64_t evals = 0, nontrivial = 0, inconclusive = 0;
    std::unordered_set<uint64_t> sigs;
    std::map<unsigned, uint64_t> classes;
    std::map<unsigned, std::vector<std::string>> samples;
    uint64_t counters[16] = {};
    uint64_t sum_dec = 0, max_dec = 0, sum_switch = 0, sum_points = 0, lib_preempt_cases = 0, faults_used = 0,
             multi_thread_cases = 0, time_jumps = 0;
    std::vector<Failure> failures;
    std::vector<std::string> inconclusive_msgs;

    void add(const Case &c, const Result &r) {
        evals++;
        if (getenv("VERIF_PROGRESS") && evals % 500 == 0) {
            static auto t0 = std::chrono::steady_clock::now();
            fprintf(stderr, "progress evals=%llu t=%.2fs sum_threads=%llu sum_points=%llu\n", (unsigned long long)evals,
                    std::chrono::duration<double>(std::chrono::steady_clock::now() - t0).count(), (unsigned long long)multi_thread_cases, (unsigned long long)sum_points);
        }
        if (r.status == Result::INCONCLUSIVE) {
            inconclusive++;
            if (inconclusive_msgs.size() < 5) inconclusive_msgs.push_back(r.msg);
            return;
        }
        const hz::Shared &s = r.sh;
        sum_dec += s.stats.decisions; max_dec = std::max<uint64_t>(max_dec, s.stats.decisions);
        sum_switch += s.stats.switches; sum_points += s.stats.points;
        if (s.stats.preempt_in_lib) lib_preempt_cases++;
        faults_used += s.stats.faults_used; time_jumps += s.stats.time_jumps;
        if (s.stats.threads > 1) multi_thread_cases++;
        if (r.status != Result::OK) return;
        classes[s.cls]++;
        for (int i = 0; i < 16; i++) counters[i] += s.counters[i];
        if (s.nontrivial) { nontrivial++; sigs.insert(s.sig); }
        auto &v = samples[s.cls];
        if (v.size() < 2 && (s.nontrivial || evals > 200)) {
            hz::Reader rd(c.prog.data(), c.prog.size());
            std::string d = hz::describe(rd);
            char buf[256];
            snprintf(buf, sizeof buf, " || executed: threads=%u decisions=%u switches=%u (in-library %u) faults=%u nontrivial=%d sched=[%s]",
                     s.stats.threads, s.stats.decisions, s.stats.switches, s.stats.preempt_in_lib, s.stats.faults_used,
                     (int)s.nontrivial, rt::hex(trimmed(c.sched)).c_str());
            v.push_back(d + buf);
        }
    }
    static std::vector<uint8_t> trimmed(std::vector<uint8_t> v) {
        while (!v.empty() && v.back() == 0) v.pop_back();
        if (v.size() > 48) v.resize(48);
        return v;
    }
};

Agg agg;
Case last_fail; std::string last_fail_msg; bool have_fail = false;
std::string g_out, g_faildir = ".", g_stopfile;
bool g_verbose = false;
// another worker of the same check has already confirmed and stored a failure: finish quickly
// (further cases / shrink candidates are skipped; a failure found by THIS worker is still reported)
bool g_stop = false; unsigned g_stop_poll = 0;
bool stop_requested() {
    if (g_stop) return true;
    if (g_stopfile.empty() || (++g_stop_poll & 15)) return false;
    if (access(g_stopfile.c_str(), F_OK) == 0) g_stop = true;
    return g_stop;
}

void note_fail(const Case &c, const Result &r) {
    last_fail = c; last_fail_msg = r.msg; have_fail = true;
}

// Cases normally run in a served batch (several cases per child).  The first failure seen
// there is re-run in a fresh process: if it fails again the driver switches to a fresh
// process for every further evaluation (so shrinking only ever sees clean-state verdicts);
// if it passes, the failure was caused by state left behind by an earlier case of the batch
// (counted as batch_only_failures, reported as FLAKY, never as a violation).
uint64_t batch_only_failures = 0; std::string batch_only_msg;
Result run_checked(const Case &c) {
    Result r = rt::run_forked(c);
    if (r.failed() && rt::g_batch > 1) {
        Result r2 = rt::run_fresh(c);
        if (r2.failed()) { rt::g_batch = 1; return r2; }
        batch_only_failures++;
        if (batch_only_msg.empty()) batch_only_msg = r.msg;
        return r2;
    }
    return r;
}

rc::Gen<uint8_t> byteGen() {
    return rc::gen::map(rc::gen::resize(100, rc::gen::inRange<int>(0, 256)), [](int v) { return (uint8_t)v; });
}

// Program length.  Decoders read fixed fields first and optional / later-added ones from the tail (a missing byte
// decodes as 0), so a length that merely scales with the size parameter leaves the tail fields at their defaults
// most of the time (measured: second-submitter / re-submission flags of the pool scenario set in < 5 % of cases).
// Therefore a fixed share of the programs has the full length: 2/3 for the short fixed-layout decoders
// (maxlen <= 32), 1/3 for the long operation-list decoders (histories of every length stay well represented).
rc::Gen<std::vector<uint8_t>> progGen(unsigned maxlen) {
    return rc::gen::withSize([=](int size) {
        int sz = std::max(1, (int)(maxlen * (unsigned)std::min(size + 5, 100) / 100));
        return rc::gen::mapcat(rc::gen::resize(100, rc::gen::inRange<int>(0, 3)), [=](int k) {
            // (small sizes stay small: the full 2-preemption sweep runs with a small maximum size on purpose)
            bool full = size >= 30 && (maxlen <= 32 ? k != 0 : k == 0);
            if (full) return rc::gen::container<std::vector<uint8_t>>((std::size_t)maxlen, byteGen());
            return rc::gen::resize(sz, rc::gen::container<std::vector<uint8_t>>(byteGen()));
        });
    });
}

std::unordered_map<uint64_t, uint32_t> zero_run_cache;

// number of scheduling decisions of prog under the zero schedule (runs it when unknown)
bool zero_run(const std::vector<uint8_t> &prog, const std::vector<uint8_t> &faults, uint32_t &N, Result *out = nullptr, Case *oc = nullptr) {
    Case c; c.prog = prog; c.faults = faults;
    uint64_t h = rt::case_hash(c);
    auto it = zero_run_cache.find(h);
    if (it != zero_run_cache.end() && !out) { N = it->second; return true; }
    Result r = run_checked(c);
    agg.add(c, r);
    if (out) *out = r;
    if (oc) *oc = c;
    if (r.failed()) { note_fail(c, r); return false; }
    N = r.sh.stats.decisions;
    if (zero_run_cache.size() > 8192) zero_run_cache.clear();
    zero_run_cache[h] = N;
    return true;
}

void rc_case_body(bool uses_schedule, unsigned maxlen) {
    if (stop_requested()) return;
    Case c;
    c.prog = *progGen(maxlen);
    if (uses_schedule) {
        int nf = *rc::gen::weightedElement<int>({{8, 0}, {2, 1}, {1, 2}});
        if (nf) {
            c.faults.assign(12, 0);
            for (int i = 0; i < nf; i++) c.faults[*rc::gen::resize(100, rc::gen::inRange<int>(0, 12))] = 1;
        }
        int mode = *rc::gen::weightedElement<int>({{1, 0}, {7, 1}, {3, 2}});
        if (mode == 1) {
            int k = *rc::gen::resize(100, rc::gen::inRange<int>(1, 5));
            uint32_t N = 0;
            if (!zero_run(c.prog, c.faults, N)) RC_FAIL(last_fail_msg);
            uint32_t span = N + 4;
            c.sched.assign(span, 0);
            for (int i = 0; i < k; i++) {
                int frac = *rc::gen::resize(100, rc::gen::inRange<int>(0, 65536));
                int val = *rc::gen::resize(100, rc::gen::inRange<int>(1, 4));
                c.sched[(uint64_t)frac * span / 65536] = (uint8_t)val;
            }
        } else if (mode == 2) {
            int p = *rc::gen::resize(100, rc::gen::inRange<int>(3, 50));
            int len = *rc::gen::resize(100, rc::gen::inRange<int>(16, 400));
            c.sched = *rc::gen::container<std::vector<uint8_t>>((size_t)len,
                rc::gen::weightedElement<uint8_t>({{(size_t)(100 - p) * 3, 0}, {(size_t)p, 1}, {(size_t)p, 2}, {(size_t)p, 3}}));
        }
    }
    Result r = run_checked(c);
    agg.add(c, r);
    if (r.failed()) { note_fail(c, r); RC_FAIL(r.msg); }
}

unsigned long long g_sweep2_complete = 0, g_sweep2_truncated = 0;
// systematic: every 1-preemption schedule of a generated program (+ sampled 2-preemption)
void sweep_case_body(unsigned maxlen, int pairs) {
    if (stop_requested()) return;
    std::vector<uint8_t> prog = *progGen(maxlen);
    Result r0; Case c0; uint32_t N = 0;
    if (!zero_run(prog, {}, N, &r0, &c0)) RC_FAIL(last_fail_msg);
    if (r0.status != Result::OK) return;
    uint32_t lim = std::min<uint32_t>(N, vrt::MAX_DEC);
    std::vector<uint8_t> alts(r0.sh.stats.dec_alts, r0.sh.stats.dec_alts + lim);
    for (uint32_t i = 0; i < lim; i++) {
        for (int a = 1; a < std::max<int>(alts[i], 2); a++) {
            Case c; c.prog = prog; c.sched.assign(i + 1, 0); c.sched[i] = (uint8_t)a;
            Result r = run_checked(c);
            agg.add(c, r);
            if (r.failed()) { note_fail(c, r); RC_FAIL(r.msg); }
        }
    }
    if (pairs < 0) {
        // FULL 2-preemption enumeration: for every first preemption (i,a) learn the decisions that follow it and
        // enumerate every second preemption (j > i, b).  The cost is quadratic in the number of decisions: a program
        // whose enumeration exceeds the per-program budget is abandoned and counted as truncated (it then contributed
        // a prefix of its pairs, nothing is claimed for it).
        const unsigned long long budget = 40000; unsigned long long spent = 0;
        for (uint32_t i = 0; i < lim; i++) {
            for (int a = 1; a < std::max<int>(alts[i], 2); a++) {
                if (stop_requested()) return;
                if (spent > budget) { g_sweep2_truncated++; return; }
                Case c1; c1.prog = prog; c1.sched.assign(i + 1, 0); c1.sched[i] = (uint8_t)a;
                Result r1 = run_checked(c1);
                agg.add(c1, r1);
                if (r1.failed()) { note_fail(c1, r1); RC_FAIL(r1.msg); }
                if (r1.status != Result::OK) continue;
                uint32_t lim2 = std::min<uint32_t>(r1.sh.stats.decisions, vrt::MAX_DEC);
                std::vector<uint8_t> alts2(r1.sh.stats.dec_alts, r1.sh.stats.dec_alts + lim2);
                for (uint32_t j = i + 1; j < lim2; j++) {
                    for (int b = 1; b < std::max<int>(alts2[j], 2); b++) {
                        Case c; c.prog = prog; c.sched.assign(j + 1, 0); c.sched[i] = (uint8_t)a; c.sched[j] = (uint8_t)b;
                        Result r = run_checked(c);
                        agg.add(c, r); spent++;
                        if (r.failed()) { note_fail(c, r); RC_FAIL(r.msg); }
                    }
                }
            }
        }
        g_sweep2_complete++;
        return;
    }
    for (int k = 0; k < pairs && lim > 1; k++) {
        int f1 = *rc::gen::resize(100, rc::gen::inRange<int>(0, 65536));
        int f2 = *rc::gen::resize(100, rc::gen::inRange<int>(0, 65536));
        int v1 = *rc::gen::resize(100, rc::gen::inRange<int>(1, 4));
        int v2 = *rc::gen::resize(100, rc::gen::inRange<int>(1, 4));
        uint32_t span = lim + 8;
        Case c; c.prog = prog; c.sched.assign(span, 0);
        c.sched[(uint64_t)f1 * span / 65536] = (uint8_t)v1;
        c.sched[(uint64_t)f2 * span / 65536] = (uint8_t)v2;
        Result r = run_checked(c);
        agg.add(c, r);
        if (r.failed()) { note_fail(c, r); RC_FAIL(r.msg); }
    }
}

std::string read_file(const std::string &p, size_t maxb) {
    std::string s; FILE *f = fopen(p.c_str(), "r");
    if (!f) return s;
    char buf[4096]; size_t n;
    while ((n = fread(buf, 1, sizeof buf, f)) > 0 && s.size() < maxb) s.append(buf, n);
    fclose(f);
    if (s.size() > maxb) s.resize(maxb);
    return s;
}

// greedy simplification on top of rapidcheck's shrinking: zero out schedule / fault bytes
// and cut the program tail while the case keeps failing
void simplify(Case &c) {
    auto fails = [&](const Case &x) { Result r = rt::run_fresh(x); agg.evals++; return r.failed(); };
    for (int round = 0; round < 2; round++) {
        for (size_t i = 0; i < c.faults.size(); i++) if (c.faults[i]) { Case t = c; t.faults[i] = 0; if (fails(t)) c = t; }
        for (size_t i = 0; i < c.sched.size(); i++) if (c.sched[i]) { Case t = c; t.sched[i] = 0; if (fails(t)) c = t; }
        for (size_t i = 0; i < c.sched.size(); i++) if (c.sched[i] > 1) { Case t = c; t.sched[i] = 1; if (fails(t)) c = t; }
        while (!c.prog.empty()) { Case t = c; t.prog.pop_back(); if (fails(t)) c = t; else break; }
        for (size_t i = 0; i < c.prog.size(); i++) if (c.prog[i]) { Case t = c; t.prog[i] = 0; if (fails(t)) c = t; }
    }
    while (!c.sched.empty() && c.sched.back() == 0) c.sched.pop_back();
    while (!c.faults.empty() && c.faults.back() == 0) c.faults.pop_back();
}

// confirm (3x), store replay file + stderr capture; returns the failure record
Failure confirm_and_store(Case c, const std::string &msg0, bool do_simplify) {
    Failure f; f.flaky = false; f.code = 0; f.msg = msg0;
    int fails = 0; Result last;
    for (int i = 0; i < 3; i++) { Result r = rt::run_fresh(c); if (r.failed()) { fails++; last = r; } }
    if (fails == 3 && do_simplify) {
        simplify(c);
        Result r = rt::run_fresh(c);
        if (r.failed()) last = r;
    }
    char name[64]; snprintf(name, sizeof name, "found-%016llx", (unsigned long long)rt::case_hash(c));
    std::string base = g_faildir + "/" + name;
    std::string errp = base + ".stderr";
    Result r = rt::run_fresh(c, errp.c_str());
    if (r.failed()) { last = r; }
    f.flaky = fails != 3 || !r.failed();
    f.msg = last.msg.empty() ? msg0 : last.msg;
    f.code = last.code;
    hz::Reader rd(c.prog.data(), c.prog.size());
    std::string comments = "decoded: " + hz::describe(rd) + "\nverdict: " + f.msg + "\n";
    if (f.flaky) comments += "FLAKY: did not reproduce 3/3 - harness nondeterminism, not a verdict\n";
    std::string err = read_file(errp, 6000);
    if (!err.empty()) {
        // first informative lines of the sanitizer / verdict output
        size_t lines = 0, i = 0; std::string head;
        while (i < err.size() && lines < 40) { size_t j = err.find('\n', i); if (j == std::string::npos) j = err.size(); head += err.substr(i, j - i) + "\n"; i = j + 1; lines++; }
        comments += "stderr:\n" + head;
        // sanitizer summary line improves the message
        size_t p = err.find("SUMMARY: ");
        if (p != std::string::npos) { size_t e = err.find('\n', p); f.msg += " | " + err.substr(p, e == std::string::npos ? std::string::npos : e - p); }
    }
    f.path = base + ".case";
    rt::write_case(f.path, c, comments);
    return f;
}

void write_stats(const char *mode, double wall, long seed) {
    if (g_out.empty()) return;
    const hz::Info &inf = hz::info();
    std::string sigp = g_out + ".sigs";
    FILE *sf = fopen(sigp.c_str(), "wb");
    if (sf) { for (uint64_t s : agg.sigs) fwrite(&s, 8, 1, sf); fclose(sf); }
    FILE *f = fopen(g_out.c_str(), "w");
    if (!f) { perror("stats"); return; }
    fprintf(f, "{\n \"property\": \"%s\", \"mode\": \"%s\", \"seed\": %ld, \"wall_s\": %.3f,\n", inf.property, mode, seed, wall);
    fprintf(f, " \"evaluations\": %llu, \"nontrivial\": %llu, \"distinct_nontrivial\": %zu, \"inconclusive\": %llu,\n",
            (unsigned long long)agg.evals, (unsigned long long)agg.nontrivial, agg.sigs.size(), (unsigned long long)agg.inconclusive);
    fprintf(f, " \"sum_decisions\": %llu, \"max_decisions\": %llu, \"sum_switches\": %llu, \"sum_points\": %llu, \"cases_with_in_library_preemption\": %llu, \"faults_injected\": %llu, \"multi_thread_cases\": %llu, \"virtual_time_jumps\": %llu,\n",
            (unsigned long long)agg.sum_dec, (unsigned long long)agg.max_dec, (unsigned long long)agg.sum_switch, (unsigned long long)agg.sum_points,
            (unsigned long long)agg.lib_preempt_cases, (unsigned long long)agg.faults_used, (unsigned long long)agg.multi_thread_cases, (unsigned long long)agg.time_jumps);
    fprintf(f, " \"sweep2_complete\": %llu, \"sweep2_truncated\": %llu,\n", g_sweep2_complete, g_sweep2_truncated);
    fprintf(f, " \"classes\": {");
    bool first = true;
    for (auto &kv : agg.classes) {
        const char *nm = kv.first < inf.n_classes ? inf.class_names[kv.first] : "?";
        fprintf(f, "%s\"%s\": %llu", first ? "" : ", ", nm, (unsigned long long)kv.second); first = false;
    }
    fprintf(f, "},\n \"counters\": {");
    for (unsigned i = 0; i < inf.n_counters && i < 16; i++)
        fprintf(f, "%s\"%s\": %llu", i ? ", " : "", inf.counter_names[i], (unsigned long long)agg.counters[i]);
    fprintf(f, "},\n \"samples\": [");
    first = true;
    for (auto &kv : agg.samples) for (auto &s : kv.second) {
        const char *nm = kv.first < inf.n_classes ? inf.class_names[kv.first] : "?";
        fprintf(f, "%s\n  {\"class\": \"%s\", \"case\": \"%s\"}", first ? "" : ",", nm, rt::json_escape(s).c_str()); first = false;
    }
    fprintf(f, "\n ],\n \"inconclusive_msgs\": [");
    for (size_t i = 0; i < agg.inconclusive_msgs.size(); i++) fprintf(f, "%s\"%s\"", i ? ", " : "", rt::json_escape(agg.inconclusive_msgs[i]).c_str());
    fprintf(f, "],\n \"failures\": [");
    for (size_t i = 0; i < agg.failures.size(); i++) {
        auto &x = agg.failures[i];
        fprintf(f, "%s\n  {\"path\": \"%s\", \"msg\": \"%s\", \"code\": %d, \"flaky\": %s}", i ? "," : "",
                rt::json_escape(x.path).c_str(), rt::json_escape(x.msg).c_str(), x.code, x.flaky ? "true" : "false");
    }
    fprintf(f, "\n ],\n \"sig_file\": \"%s\"\n}\n", rt::json_escape(sigp).c_str());
    fclose(f);
}

double now_s() { return std::chrono::duration<double>(std::chrono::steady_clock::now().time_since_epoch()).count(); }

} // namespace

int main(int argc, char **argv) {
    setvbuf(stdout, nullptr, _IOLBF, 0);
    const hz::Info &inf = hz::info();
    std::string mode; std::string file; long cases = 1000, seed = 1; int pairs = 0; int max_size = 100;
    std::vector<std::string> files;
    for (int i = 1; i < argc; i++) {
        std::string a = argv[i];
        auto next = [&]() -> std::string { if (i + 1 < argc) return argv[++i]; fprintf(stderr, "missing value for %s\n", a.c_str()); exit(2); };
        if (a == "--rc" || a == "--sweep" || a == "--replay" || a == "--describe" || a == "--info") mode = a.substr(2);
        else if (a == "--cases") cases = atol(next().c_str());
        else if (a == "--seed") seed = atol(next().c_str());
        else if (a == "--pairs") pairs = atoi(next().c_str());
        else if (a == "--max-size") max_size = atoi(next().c_str());
        else if (a == "--out") g_out = next();
        else if (a == "--faildir") g_faildir = next();
        else if (a == "--watchdog") rt::g_watchdog_s = atoi(next().c_str());
        else if (a == "--batch") rt::g_batch = atoi(next().c_str());
        else if (a == "--stopfile") g_stopfile = next();
        else if (a == "-v") g_verbose = true;
        else files.push_back(a);
    }
    if (mode == "info") {
        printf("{\"property\": \"%s\", \"decoder\": %d, \"uses_schedule\": %s, \"prog_max_len\": %u, \"rule\": \"%s\"}\n",
               inf.property, inf.decoder_version, inf.uses_schedule ? "true" : "false", inf.prog_max_len, rt::json_escape(inf.rule).c_str());
        return 0;
    }
    if (mode == "describe") {
        for (auto &p : files) {
            Case c; std::string err;
            if (!rt::read_case(p, c, &err)) { fprintf(stderr, "%s: %s\n", p.c_str(), err.c_str()); return 2; }
            hz::Reader rd(c.prog.data(), c.prog.size());
            printf("%s: %s\n", p.c_str(), hz::describe(rd).c_str());
        }
        return 0;
    }
    if (mode == "replay") {
        // plain regression check that bypasses rapidcheck: exit 0 = all pass, 1 = some fail
        double t0 = now_s();
        int bad = 0;
        for (auto &p : files) {
            Case c; std::string err;
            if (!rt::read_case(p, c, &err)) { fprintf(stderr, "%s: %s\n", p.c_str(), err.c_str()); return 2; }
            std::string errp = g_verbose ? (p + ".replay.stderr") : std::string();
            Result r = rt::run_fresh(c, g_verbose ? errp.c_str() : nullptr);
            agg.add(c, r);
            if (r.failed()) {
                // deterministic? replay twice more
                int again = 0; for (int k = 0; k < 2; k++) if (rt::run_fresh(c).failed()) again++;
                bad++;
                Failure f; f.path = p; f.msg = r.msg; f.code = r.code; f.flaky = again != 2;
                agg.failures.push_back(f);
                printf("REPLAY-FAIL %s: %s%s\n", p.c_str(), r.msg.c_str(), f.flaky ? " (FLAKY)" : "");
            } else if (r.status == Result::INCONCLUSIVE) {
                printf("REPLAY-INCONCLUSIVE %s: %s\n", p.c_str(), r.msg.c_str());
            } else {
                printf("REPLAY-PASS %s\n", p.c_str());
            }
        }
        write_stats("replay", now_s() - t0, seed);
        return bad ? 1 : 0;
    }
    if (mode == "rc" || mode == "sweep") {
        double t0 = now_s();
        if (seed == 0) seed = 0x5eed;
        char params[256];
        snprintf(params, sizeof params, "seed=%ld max_success=%ld max_size=%d max_discard_ratio=100 noshrink=0", seed, cases, max_size);
        setenv("RC_PARAMS", params, 1);
        bool ok;
        if (mode == "rc") {
            ok = rc::check(std::string(inf.property) + " campaign", [&] { rc_case_body(inf.uses_schedule, inf.prog_max_len); });
        } else {
            ok = rc::check(std::string(inf.property) + " 1-preemption sweep", [&] { sweep_case_body(inf.prog_max_len, pairs); });
        }
        if (!ok) {
            if (have_fail) {
                Failure f = confirm_and_store(last_fail, last_fail_msg, !g_stop);
                agg.failures.push_back(f);
                if (!f.flaky && !g_stopfile.empty()) { FILE *sf = fopen(g_stopfile.c_str(), "w"); if (sf) fclose(sf); }
                printf("%s %s: %s\n", f.flaky ? "FLAKY" : "FAILURE", f.path.c_str(), f.msg.c_str());
            } else {
                Failure f; f.path = ""; f.msg = "rapidcheck reported failure without a failing case (generator problem)"; f.code = -1; f.flaky = true;
                agg.failures.push_back(f);
            }
        }
        if (batch_only_failures) {
            Failure f; f.path = ""; f.code = -3; f.flaky = true;
            f.msg = std::to_string(batch_only_failures) + " failure(s) occurred only when several cases shared one process and not in a fresh process (state carried over between cases): " + batch_only_msg;
            agg.failures.push_back(f);
        }
        write_stats(mode.c_str(), now_s() - t0, seed);
        printf("%s %s seed=%ld evaluations=%llu nontrivial=%llu distinct=%zu inconclusive=%llu failures=%zu wall=%.1fs\n",
               inf.property, mode.c_str(), seed, (unsigned long long)agg.evals, (unsigned long long)agg.nontrivial, agg.sigs.size(),
               (unsigned long long)agg.inconclusive, agg.failures.size(), now_s() - t0);
        return agg.failures.empty() ? 0 : 1;
    }
    fprintf(stderr, "usage: %s --rc|--sweep|--replay|--describe|--info [options] [files]\n", argv[0]);
    return 2;
}
