// runtime.cpp - shared result page, fork-per-case runner, case files, trace, assert hook.
// Compiled without -fsanitize=thread (bookkeeping must be invisible to TSan).
#include "runtime.h"
#include <cstdio>
#include <cstring>
#include <cstdlib>
#include <csignal>
#include <cerrno>
#include <fcntl.h>
#include <unistd.h>
#include <sys/mman.h>
#include <sys/wait.h>
#include <exception>
#include <stdexcept>

extern "C" const char *__asan_default_options() {
    return "exitcode=42:detect_leaks=0:abort_on_error=0:detect_stack_use_after_return=1:allocator_may_return_null=1:handle_abort=0";
}
#ifndef VERIF_NO_ALLOC_REPLACE   // (asan variant only; in the tsan variant this would override TSan's exit code)
extern "C" const char *__ubsan_default_options() { return "halt_on_error=1:exitcode=46:print_stacktrace=0"; }
#endif
extern "C" const char *__tsan_default_options() {
    return "halt_on_error=1:exitcode=66:die_after_fork=0:report_signal_unsafe=0:second_deadlock_stack=0:history_size=2";
}

namespace hz {

static Shared *g_shared = nullptr;
static Shared g_fallback;
Shared &shared() { return g_shared ? *g_shared : g_fallback; }

// ---- trace ----
static constexpr unsigned TRACE_MAX = 32768;
static Ev g_trace[TRACE_MAX];
static unsigned g_trace_n = 0;
void trace(uint16_t a, uint16_t b, int32_t c, int32_t d) {
    if (g_trace_n < TRACE_MAX) g_trace[g_trace_n] = Ev{a, b, c, d, (int16_t)vrt::self()};
    g_trace_n++;
}
unsigned trace_size() { return g_trace_n < TRACE_MAX ? g_trace_n : TRACE_MAX; }
const Ev &trace_at(unsigned i) { return g_trace[i]; }
std::string trace_tail(unsigned n) {
    std::string s;
    unsigned sz = trace_size();
    unsigned from = sz > n ? sz - n : 0;
    char buf[96];
    for (unsigned i = from; i < sz; i++) {
        const Ev &e = g_trace[i];
        snprintf(buf, sizeof buf, " [%u T%d %u.%u %d %d]", i, e.thr, e.a, e.b, e.c, e.d);
        s += buf;
    }
    return s;
}

void set_class(unsigned c) { shared().cls = (uint16_t)c; }
void set_nontrivial(bool b) { shared().nontrivial = b ? 1 : 0; }
void sig_mix(uint64_t v) { auto &s = shared().sig; s = (s ^ v) * 0x100000001b3ULL + 0x632be59bd9b4e019ULL; }
void count(int idx, uint64_t d) { if (idx >= 0 && idx < 16) shared().counters[idx] += d; }

static int g_tick = 0;
int tick() { return ++g_tick; }
static long g_slots[64];
long slot_add(int i, long d) { return g_slots[i & 63] += d; }
long slot_get(int i) { return g_slots[i & 63]; }
void slot_set(int i, long v) { g_slots[i & 63] = v; }
// registry of live memory ranges (coroutine frames handed out by storage policies)
static struct { const char *p; size_t n; } g_ranges[256]; static int g_nranges = 0;
int range_add(const void *p, size_t n) {
    const char *b = (const char *)p;
    for (int i = 0; i < g_nranges; i++) if (b < g_ranges[i].p + g_ranges[i].n && g_ranges[i].p < b + n) return 0;   // overlaps a live range
    if (g_nranges >= 256) return 2;
    g_ranges[g_nranges++] = {b, n};
    return 1;
}
int range_del(const void *p, size_t n) {
    for (int i = 0; i < g_nranges; i++) if (g_ranges[i].p == (const char *)p) {
        int ok = g_ranges[i].n == n ? 1 : 2;
        g_ranges[i] = g_ranges[--g_nranges];
        return ok;
    }
    return 0;
}
int range_count() { return g_nranges; }
void reset_case_state() { g_tick = 0; g_trace_n = 0; g_nranges = 0; memset(g_slots, 0, sizeof g_slots); }

bool g_abort_on_fail = false;      // libFuzzer mode: a verdict must look like a crash

[[noreturn]] void fail(const char *fmt, ...) {
    char msg[1000];
    va_list ap; va_start(ap, fmt); vsnprintf(msg, sizeof msg, fmt, ap); va_end(ap);
    Shared &s = shared();
    s.code = vrt::EXIT_VIOLATION;
    snprintf(s.msg, sizeof s.msg, "%s", msg);
    fprintf(stderr, "VERDICT violation: %s\n", msg);
    if (g_abort_on_fail) abort();
    _exit(vrt::EXIT_VIOLATION);
}

} // namespace hz

// library assert() -> classified verdict instead of an anonymous abort
extern "C" void __assert_fail(const char *expr, const char *file, unsigned int line, const char *func) noexcept {
    (void)func;
    const char *b = strrchr(file, '/');
    vrt::die(vrt::EXIT_ASSERT, "assertion failed: %s (%s:%u)", expr, b ? b + 1 : file, line);
}

namespace rt {

int g_watchdog_s = 20;
static volatile pid_t g_child = 0;
static volatile sig_atomic_t g_timed_out = 0;

static void on_alarm(int) {
    g_timed_out = 1;
    if (g_child > 0) kill(g_child, SIGKILL);
}

static void child_on_die(int code, const char *msg) {
    hz::Shared &s = hz::shared();
    s.code = code;
    snprintf(s.msg, sizeof s.msg, "%s", msg);
    s.stats = vrt::stats();
    fprintf(stderr, "VERDICT code=%d: %s\n", code, msg);
    if (hz::g_abort_on_fail) abort();
}

static void redirect_stderr(const char *stderr_path) {
    int fd = open(stderr_path ? stderr_path : "/dev/null", O_WRONLY | O_CREAT | O_TRUNC, 0644);
    if (fd >= 0) { dup2(fd, 2); close(fd); }
    setvbuf(stderr, nullptr, _IONBF, 0);
}

// runs one case in this process; returns only if the case passed (verdicts _exit)
static void run_case_here(const Case &c) {
    vrt::on_die = child_on_die;
    const hz::Info &inf = hz::info();
    hz::reset_case_state();
    vrt::init(c.sched.data(), c.sched.size(), c.faults.data(), c.faults.size(), inf.max_points);
    hz::AllocCounters a0 = hz::alloc_counters();
    hz::Reader r(c.prog.data(), c.prog.size());
    try {
        hz::run_case(r);
    } catch (const std::exception &e) {
        hz::fail("unexpected exception escaped the scenario: %s", e.what());
    } catch (...) {
        hz::fail("unexpected exception escaped the scenario");
    }
    vrt::finish_main();
    hz::Shared &s = hz::shared();
    hz::AllocCounters a1 = hz::alloc_counters();
    s.news = a1.news - a0.news; s.deletes = a1.deletes - a0.deletes;
    s.exempt_news = a1.exempt_news - a0.exempt_news; s.exempt_deletes = a1.exempt_deletes - a0.exempt_deletes;
    if (inf.check_alloc_balance && s.news != s.deletes)
        hz::fail("allocation balance: %lu operator new vs %lu operator delete in this case (%s)",
                 s.news, s.deletes, s.news > s.deletes ? "leak" : "over-release");
    s.stats = vrt::stats();
    hz::sig_mix(r.h);
    hz::sig_mix(s.stats.trace_hash);
    s.finished = 1;
    vrt::shutdown();
}

void run_case_inprocess(const Case &c) { run_case_here(c); }

static void ensure_shared() {
    if (hz::g_shared) return;
    void *p = mmap(nullptr, sizeof(hz::Shared), PROT_READ | PROT_WRITE, MAP_SHARED | MAP_ANONYMOUS, -1, 0);
    if (p == MAP_FAILED) { perror("mmap"); exit(2); }
    hz::g_shared = (hz::Shared *)p;
    struct sigaction sa; memset(&sa, 0, sizeof sa); sa.sa_handler = on_alarm;
    sigaction(SIGALRM, &sa, nullptr);
    signal(SIGPIPE, SIG_IGN);
}

static Result classify(int st, bool timed_out) {
    Result res;
    res.sh = *hz::g_shared;
    if (timed_out) {
        res.status = Result::INCONCLUSIVE; res.code = -1;
        res.msg = "watchdog: case exceeded wall-clock limit (inconclusive, not a verdict)";
        return res;
    }
    if (WIFEXITED(st)) {
        int code = WEXITSTATUS(st);
        res.code = code;
        if (code == 0) {
            if (!res.sh.finished) { res.status = Result::FAIL; res.msg = "case child exited 0 before the scenario finished (exit() called inside the case)"; }
            return res;
        }
        switch (code) {
            case vrt::EXIT_VIOLATION: case vrt::EXIT_DEADLOCK: case vrt::EXIT_LIVELOCK: case vrt::EXIT_ASSERT:
                res.status = Result::FAIL; res.msg = res.sh.msg; break;
            case vrt::EXIT_HARNESS:
                res.status = Result::INCONCLUSIVE; res.msg = std::string("HARNESS: ") + res.sh.msg; break;
            case vrt::EXIT_ASAN: res.status = Result::FAIL; res.msg = "AddressSanitizer report"; break;
            case 46: res.status = Result::FAIL; res.msg = "UndefinedBehaviorSanitizer report"; break;
            case vrt::EXIT_TSAN: res.status = Result::FAIL; res.msg = "ThreadSanitizer report (data race)"; break;
            default: res.status = Result::FAIL; res.msg = "case child exited with code " + std::to_string(code); break;
        }
        return res;
    }
    if (WIFSIGNALED(st)) {
        res.status = Result::FAIL; res.code = 128 + WTERMSIG(st);
        res.msg = std::string("case child killed by signal ") + std::to_string(WTERMSIG(st)) + " (" + strsignal(WTERMSIG(st)) + ")";
        if (res.sh.msg[0]) res.msg += std::string(": ") + res.sh.msg;
        return res;
    }
    res.status = Result::INCONCLUSIVE; res.msg = "unknown wait status";
    return res;
}

static int reap(pid_t pid) {
    int st = 0;
    for (;;) {
        pid_t r = waitpid(pid, &st, 0);
        if (r == pid) break;
        if (r < 0 && errno != EINTR) { perror("waitpid"); exit(2); }
    }
    return st;
}

// ---- one fresh process per case (used for confirmation runs and stderr capture) ----
Result run_fresh(const Case &c, const char *stderr_path) {
    ensure_shared();
    memset(hz::g_shared, 0, sizeof(hz::Shared));
    fflush(stdout); fflush(stderr);
    g_timed_out = 0;
    pid_t pid = fork();
    if (pid < 0) { perror("fork"); exit(2); }
    if (pid == 0) { redirect_stderr(stderr_path); run_case_here(c); _exit(0); }
    g_child = pid;
    alarm(g_watchdog_s);
    int st = reap(pid);
    alarm(0);
    g_child = 0;
    return classify(st, g_timed_out);
}

// ---- case server: a forked child runs up to g_batch cases in-process; any verdict kills
// it (the parent then knows which case it was running).  Failures are always re-confirmed
// in fresh processes by the driver, so state leaking between the cases of a batch can only
// ever produce a FLAKY record, never a violation.
int g_batch = 48;
static pid_t srv_pid = 0; static int srv_to = -1, srv_from = -1; static int srv_left = 0;

static bool write_all(int fd, const void *p, size_t n) {
    const char *b = (const char *)p;
    while (n) { ssize_t w = write(fd, b, n); if (w < 0) { if (errno == EINTR) continue; return false; } b += w; n -= (size_t)w; }
    return true;
}
static bool read_all(int fd, void *p, size_t n) {
    char *b = (char *)p;
    while (n) { ssize_t r = read(fd, b, n); if (r < 0) { if (errno == EINTR) { if (g_timed_out) return false; continue; } return false; } if (r == 0) return false; b += r; n -= (size_t)r; }
    return true;
}

[[noreturn]] static void server_loop(int in, int out) {
    redirect_stderr(nullptr);
    for (;;) {
        uint32_t hdr[3];
        if (!read_all(in, hdr, sizeof hdr)) _exit(0);
        Case c;
        c.prog.resize(hdr[0]); c.sched.resize(hdr[1]); c.faults.resize(hdr[2]);
        if ((hdr[0] && !read_all(in, c.prog.data(), hdr[0])) || (hdr[1] && !read_all(in, c.sched.data(), hdr[1])) ||
            (hdr[2] && !read_all(in, c.faults.data(), hdr[2]))) _exit(0);
        run_case_here(c);
        char ok = 1;
        if (!write_all(out, &ok, 1)) _exit(0);
    }
}

static void stop_server() {
    if (!srv_pid) return;
    close(srv_to); close(srv_from);
    reap(srv_pid);
    srv_pid = 0; srv_to = srv_from = -1;
}

Result run_forked(const Case &c, const char *stderr_path) {
    if (stderr_path || g_batch <= 1) return run_fresh(c, stderr_path);
    ensure_shared();
    if (srv_pid && srv_left <= 0) stop_server();
    if (!srv_pid) {
        int a[2], b[2];
        if (pipe(a) || pipe(b)) { perror("pipe"); exit(2); }
        fflush(stdout); fflush(stderr);
        pid_t pid = fork();
        if (pid < 0) { perror("fork"); exit(2); }
        if (pid == 0) { close(a[1]); close(b[0]); server_loop(a[0], b[1]); }
        close(a[0]); close(b[1]);
        srv_pid = pid; srv_to = a[1]; srv_from = b[0]; srv_left = g_batch;
    }
    memset(hz::g_shared, 0, sizeof(hz::Shared));
    g_timed_out = 0;
    g_child = srv_pid;
    uint32_t hdr[3] = {(uint32_t)c.prog.size(), (uint32_t)c.sched.size(), (uint32_t)c.faults.size()};
    bool sent = write_all(srv_to, hdr, sizeof hdr) && (c.prog.empty() || write_all(srv_to, c.prog.data(), c.prog.size())) &&
                (c.sched.empty() || write_all(srv_to, c.sched.data(), c.sched.size())) &&
                (c.faults.empty() || write_all(srv_to, c.faults.data(), c.faults.size()));
    alarm(g_watchdog_s);
    char ok = 0;
    bool got = sent && read_all(srv_from, &ok, 1);
    alarm(0);
    srv_left--;
    if (got && ok == 1) {
        g_child = 0;
        Result res; res.sh = *hz::g_shared;
        if (!res.sh.finished) { res.status = Result::FAIL; res.msg = "case returned without finishing"; }
        return res;
    }
    // the server died (verdict) or was killed by the watchdog
    pid_t pid = srv_pid;
    close(srv_to); close(srv_from);
    srv_pid = 0; srv_to = srv_from = -1;
    int st = reap(pid);
    g_child = 0;
    return classify(st, g_timed_out);
}

std::string hex(const std::vector<uint8_t> &v) {
    std::string s; char b[4];
    for (size_t i = 0; i < v.size(); i++) { snprintf(b, sizeof b, i ? " %02x" : "%02x", v[i]); s += b; }
    return s;
}

std::string json_escape(const std::string &s) {
    std::string o;
    for (unsigned char ch : s) {
        switch (ch) {
            case '"': o += "\\\""; break;
            case '\\': o += "\\\\"; break;
            case '\n': o += "\\n"; break;
            case '\t': o += "\\t"; break;
            case '\r': o += "\\r"; break;
            default:
                if (ch < 0x20 || ch >= 0x7f) { char b[8]; snprintf(b, sizeof b, "\\u%04x", ch); o += b; }
                else o += (char)ch;
        }
    }
    return o;
}

uint64_t case_hash(const Case &c) {
    uint64_t h = 0xcbf29ce484222325ULL;
    auto mixv = [&](const std::vector<uint8_t> &v) {
        for (uint8_t b : v) h = (h ^ b) * 0x100000001b3ULL;
        h = (h ^ 0xff) * 0x100000001b3ULL;
    };
    // trailing zeros of sched/faults are meaningless
    auto trim = [](std::vector<uint8_t> v) { while (!v.empty() && v.back() == 0) v.pop_back(); return v; };
    mixv(c.prog); mixv(trim(c.sched)); mixv(trim(c.faults));
    return h;
}

bool write_case(const std::string &path, const Case &c, const std::string &comments) {
    FILE *f = fopen(path.c_str(), "w");
    if (!f) return false;
    const hz::Info &inf = hz::info();
    fprintf(f, "property %s\ndecoder %d\n", inf.property, inf.decoder_version);
    fprintf(f, "prog %s\n", hex(c.prog).c_str());
    auto trim = [](std::vector<uint8_t> v) { while (!v.empty() && v.back() == 0) v.pop_back(); return v; };
    fprintf(f, "sched %s\n", hex(trim(c.sched)).c_str());
    fprintf(f, "faults %s\n", hex(trim(c.faults)).c_str());
    size_t i = 0;
    while (i < comments.size()) {
        size_t j = comments.find('\n', i);
        if (j == std::string::npos) j = comments.size();
        fprintf(f, "# %s\n", comments.substr(i, j - i).c_str());
        i = j + 1;
    }
    fclose(f);
    return true;
}

static bool parse_hex(const char *s, std::vector<uint8_t> &out) {
    out.clear();
    while (*s) {
        while (*s == ' ' || *s == '\t' || *s == '\r' || *s == '\n') s++;
        if (!*s) break;
        char *e; long v = strtol(s, &e, 16);
        if (e == s || v < 0 || v > 255) return false;
        out.push_back((uint8_t)v); s = e;
    }
    return true;
}

bool read_case(const std::string &path, Case &c, std::string *err) {
    FILE *f = fopen(path.c_str(), "r");
    if (!f) { if (err) *err = "cannot open " + path; return false; }
    char *line = nullptr; size_t cap = 0;
    bool ok = true;
    while (getline(&line, &cap, f) > 0) {
        if (line[0] == '#') continue;
        if (!strncmp(line, "property ", 9)) {
            std::string p(line + 9); while (!p.empty() && (p.back() == '\n' || p.back() == ' ')) p.pop_back();
            if (p != hz::info().property) { if (err) *err = "case is for property " + p; ok = false; }
        } else if (!strncmp(line, "prog", 4)) ok &= parse_hex(line + 4, c.prog);
        else if (!strncmp(line, "sched", 5)) ok &= parse_hex(line + 5, c.sched);
        else if (!strncmp(line, "faults", 6)) ok &= parse_hex(line + 6, c.faults);
    }
    free(line);
    fclose(f);
    if (!ok && err && err->empty()) *err = "malformed case file";
    return ok;
}

} // namespace rt
