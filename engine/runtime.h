// runtime.h - engine-internal: fork-per-case runner, case files (not seen by harness TUs)
#pragma once
#include "harness.h"
#include <string>
#include <vector>

namespace rt {

struct Case { std::vector<uint8_t> prog, sched, faults; };

struct Result {
    enum Status { OK, FAIL, INCONCLUSIVE } status = OK;
    int code = 0;             // vrt::EXIT_* or 128+signal
    std::string msg;
    hz::Shared sh;
    bool failed() const { return status == FAIL; }
};

// run one case in a forked child.  stderr of the child goes to stderr_path (or /dev/null)
Result run_forked(const Case &c, const char *stderr_path = nullptr);

bool write_case(const std::string &path, const Case &c, const std::string &comments);
bool read_case(const std::string &path, Case &c, std::string *err = nullptr);

std::string hex(const std::vector<uint8_t> &v);
std::string json_escape(const std::string &s);
uint64_t case_hash(const Case &c);

Result run_fresh(const Case &c, const char *stderr_path = nullptr);
extern int g_batch;        // cases per server child (1 = a fresh process for every case)
extern int g_watchdog_s;   // wall-clock watchdog per case (inconclusive when exceeded)

} // namespace rt
