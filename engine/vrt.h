// vrt - virtual runtime: runs the scenario's real OS threads strictly one at a time and
// decides at every synchronisation operation which one continues, from a generated
// schedule vector.  See DESIGN.md 2.3.  This header is included BEFORE the macro-rename
// layer; vrt.cpp is compiled WITHOUT -fsanitize=thread so that the baton adds no
// happens-before edges of its own.
#pragma once
#include <cstdint>
#include <cstddef>
#include <functional>
#include <thread>

namespace vrt {

enum Kind : uint8_t {
    K_LOAD = 1, K_STORE, K_RMW, K_CAS, K_FENCE, K_MUTEX, K_CV, K_THREAD, K_WAIT, K_NOTIFY,
    K_USER, K_CLOCK, K_STOP
};

// exit codes of a case child
enum : int {
    EXIT_OK = 0,
    EXIT_VIOLATION = 41,   // oracle said no (message in shared page)
    EXIT_ASAN = 42,
    EXIT_DEADLOCK = 43,
    EXIT_LIVELOCK = 44,
    EXIT_ASSERT = 45,      // library assert() failed
    EXIT_HARNESS = 47,     // harness-internal problem (never a property verdict)
    EXIT_TSAN = 66
};

struct MutexState { int owner = -1; };

static constexpr int MAX_DEC = 4096;
struct Stats {
    uint64_t points = 0;        // scheduling points executed by virtual threads
    uint32_t decisions = 0;     // schedule bytes consumed (real choices)
    uint32_t switches = 0;      // context switches caused by a non-zero decision at a point
    uint32_t blocks = 0;        // times a thread blocked
    uint32_t threads = 0;       // virtual threads created (incl. main)
    uint32_t faults_used = 0;   // injected spurious failures / wake-ups
    uint32_t preempt_in_lib = 0;// switches that happened at a non-K_USER point
    uint32_t time_jumps = 0;    // idle jumps of the virtual clock
    uint64_t trace_hash = 0;    // hash of (thread, kind) over all switches
    uint8_t  dec_alts[MAX_DEC]; // number of alternatives at decision i (for the sweep)
};

// ---- life cycle (main virtual thread = the caller of init) ----
void init(const uint8_t *sched, size_t slen, const uint8_t *faults, size_t flen, uint64_t max_points);
bool active();
// main thread: run every remaining virtual thread to completion (detached ones too)
void finish_main();
void shutdown();                             // after finish_main: leave virtual mode, free thread records
Stats &stats();

// ---- scheduling points ----
void point(int kind, const void *obj);      // before/after every interposed operation
void yield();                                // forced switch if someone else is runnable
int  self();                                 // virtual thread id (0 = main), -1 = not virtual

// ---- faults ----
bool fault(int kind);                        // consume one fault byte; true = inject

// ---- virtual time ----
uint64_t now_ns();
void advance(uint64_t dt_ns);
void sleep_until(uint64_t t_ns);
static constexpr uint64_t NO_DEADLINE = ~uint64_t(0);

// ---- blocking primitives (called by the interposed twins) ----
void mutex_acquire(MutexState *m, bool with_point);   // blocks virtually until free
bool mutex_try_acquire(MutexState *m);
void mutex_release(MutexState *m, bool with_point);
// caller has released the mutex state with mutex_release(m,false) right before; no point
// in between -> condition-variable wait is atomic.  true = timed out
bool cv_block(const void *cv, uint64_t deadline_ns);
void cv_notify(const void *cv, bool all);
void block_on(const void *key, const char *why);      // generic: until wake(key)
void wake(const void *key, bool all);

// ---- threads ----
int  thread_create(std::function<void()> fn);
void thread_join(int id);
void thread_detach(int id);
bool thread_finished(int id);
std::thread::id thread_os_id(int id);

// ---- verdicts (never return) ----
[[noreturn]] void die(int code, const char *fmt, ...) __attribute__((format(printf, 2, 3)));
// hook installed by the harness runtime: receives the final message before _exit
extern void (*on_die)(int code, const char *msg);

// thread creation bookkeeping must not count as allocations of the code under test
extern thread_local int exempt_alloc_depth;
struct exempt_scope { exempt_scope() { ++exempt_alloc_depth; } ~exempt_scope() { --exempt_alloc_depth; } };

} // namespace vrt
