// alloc.cpp - counting replacement of the global operator new/delete (DESIGN 2.4).
// Every block carries a 16-byte header saying whether it was allocated inside an exempt
// scope (engine bookkeeping, thread creation), so frees are attributed correctly whoever
// performs them.  ASan still sees the underlying malloc/free.
#include "harness.h"
#include <cstdlib>
#include <cstring>
#include <new>

namespace {
constexpr uint32_t MAGIC = 0xC0C15A11u, DEAD = 0xDEADBEA7u;
struct Hdr { uint32_t magic; uint16_t off; uint8_t exempt; uint8_t pad; uint64_t size; };
static_assert(sizeof(Hdr) == 16, "header must keep 16-byte alignment");

unsigned long g_news, g_deletes, g_ex_news, g_ex_deletes, g_bytes;
bool g_measure = false; unsigned long g_measured = 0;
thread_local int tl_region = 0; thread_local unsigned long tl_region_news = 0;

inline void inc(unsigned long &c, unsigned long d = 1) { __atomic_fetch_add(&c, d, __ATOMIC_RELAXED); }

void *do_new(size_t n, size_t align) {
    if (align < 16) align = 16;
    size_t extra = align == 16 ? 16 : align + 16;
    char *raw = (char *)std::malloc(n + extra);
    if (!raw) throw std::bad_alloc();
    char *user = align == 16 ? raw + 16 : (char *)(((uintptr_t)raw + 16 + align - 1) & ~(uintptr_t)(align - 1));
    Hdr *h = (Hdr *)(user - 16);
    h->magic = MAGIC; h->off = (uint16_t)(user - raw); h->size = n; h->pad = 0;
    h->exempt = vrt::exempt_alloc_depth > 0;
    if (h->exempt) inc(g_ex_news);
    else {
        inc(g_news); inc(g_bytes, n);
        if (tl_region > 0) tl_region_news++;
        if (g_measure) inc(g_measured);
    }
    return user;
}
void do_delete(void *p) noexcept {
    if (!p) return;
    Hdr *h = (Hdr *)((char *)p - 16);
    if (h->magic != MAGIC) {
        if (h->magic == DEAD) vrt::die(vrt::EXIT_VIOLATION, "double delete of %p", p);
        vrt::die(vrt::EXIT_VIOLATION, "operator delete of a pointer that did not come from operator new (%p)", p);
    }
    if (h->exempt) inc(g_ex_deletes); else inc(g_deletes);
    h->magic = DEAD;
    std::free((char *)p - h->off);
}
} // namespace

namespace hz {
AllocCounters alloc_counters() { return {g_news, g_deletes, g_ex_news, g_ex_deletes, g_bytes}; }
long alloc_balance() { return (long)g_news - (long)g_deletes; }
void region_open() { tl_region++; tl_region_news = 0; }
unsigned long region_close() { tl_region--; return tl_region_news; }
void measure_begin() { g_measure = true; g_measured = 0; }
unsigned long measure_end() { g_measure = false; return g_measured; }
unsigned long measured_so_far() { return g_measured; }
}

#ifndef VERIF_NO_ALLOC_REPLACE   // the TSan runtime brings its own operator new/delete
void *operator new(size_t n) { return do_new(n, 16); }
void *operator new[](size_t n) { return do_new(n, 16); }
void *operator new(size_t n, const std::nothrow_t &) noexcept { try { return do_new(n, 16); } catch (...) { return nullptr; } }
void *operator new[](size_t n, const std::nothrow_t &) noexcept { try { return do_new(n, 16); } catch (...) { return nullptr; } }
void *operator new(size_t n, std::align_val_t a) { return do_new(n, (size_t)a); }
void *operator new[](size_t n, std::align_val_t a) { return do_new(n, (size_t)a); }
void *operator new(size_t n, std::align_val_t a, const std::nothrow_t &) noexcept { try { return do_new(n, (size_t)a); } catch (...) { return nullptr; } }
void *operator new[](size_t n, std::align_val_t a, const std::nothrow_t &) noexcept { try { return do_new(n, (size_t)a); } catch (...) { return nullptr; } }
void operator delete(void *p) noexcept { do_delete(p); }
void operator delete[](void *p) noexcept { do_delete(p); }
void operator delete(void *p, size_t) noexcept { do_delete(p); }
void operator delete[](void *p, size_t) noexcept { do_delete(p); }
void operator delete(void *p, const std::nothrow_t &) noexcept { do_delete(p); }
void operator delete[](void *p, const std::nothrow_t &) noexcept { do_delete(p); }
void operator delete(void *p, std::align_val_t) noexcept { do_delete(p); }
void operator delete[](void *p, std::align_val_t) noexcept { do_delete(p); }
void operator delete(void *p, size_t, std::align_val_t) noexcept { do_delete(p); }
void operator delete[](void *p, size_t, std::align_val_t) noexcept { do_delete(p); }
void operator delete(void *p, std::align_val_t, const std::nothrow_t &) noexcept { do_delete(p); }
void operator delete[](void *p, std::align_val_t, const std::nothrow_t &) noexcept { do_delete(p); }
#else
namespace { [[maybe_unused]] void *(*keep_new)(size_t, size_t) = &do_new; [[maybe_unused]] void (*keep_del)(void *) noexcept = &do_delete; }
#endif
