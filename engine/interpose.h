// interpose.h - macro-rename layer.  Included FIRST in every harness TU.  Every
// std::atomic / atomic_thread_fence / mutex / condition_variable / thread / deque /
// system_clock / stop_* that the cocls headers use is replaced, lexically, by a twin that
// performs the real operation with the memory order the source wrote and calls into vrt
// before and after it.  Nothing in /repo is edited.  See DESIGN.md 2.3.
#pragma once
#include <bits/stdc++.h>
#include <coroutine>
#include <stop_token>
#include <semaphore>
#include <alloca.h>
#include "vrt.h"

#if defined(__SANITIZE_THREAD__)
#define VERIF_TSAN 1
#elif defined(__has_feature)
#if __has_feature(thread_sanitizer)
#define VERIF_TSAN 1
#endif
#endif
#ifdef VERIF_TSAN
extern "C" void __tsan_acquire(void *addr);
extern "C" void __tsan_release(void *addr);
#endif

namespace verif_detail {
// TSan does not model atomic_thread_fence.  The twin records which atomics the thread read
// with a weaker-than-acquire order since its last acquire fence; fence(acquire) tells TSan
// to acquire on them.  Over-approximates happens-before slightly (can hide, never invent).
struct fence_log {
    void *addr[16]; int n = 0;
    void add(void *a) { if (n < 16) addr[n++] = a; else { addr[15] = a; } }
};
inline thread_local fence_log tl_fence_log;
inline bool is_acq(std::memory_order mo) {
    return mo == std::memory_order_acquire || mo == std::memory_order_acq_rel || mo == std::memory_order_seq_cst
        || mo == std::memory_order_consume;
}
inline void note_weak_read(void *a, std::memory_order mo) {
#ifdef VERIF_TSAN
    if (!is_acq(mo)) tl_fence_log.add(a);
#else
    (void)a; (void)mo;
#endif
}
// counters the harnesses read (per process = per case)
struct op_counters {
    unsigned long atomic_ops = 0, fences = 0, mutex_ops = 0, cv_ops = 0, weak_cas_fail_injected = 0;
};
inline op_counters g_ops;
// bookkeeping must stay invisible to TSan (plain accesses in a no_sanitize function are not instrumented)
#if defined(__clang__)
#define VERIF_NOTSAN __attribute__((no_sanitize("thread"), noinline))
#else
#define VERIF_NOTSAN __attribute__((no_sanitize_thread, noinline))
#endif
VERIF_NOTSAN inline void ops_inc(unsigned long op_counters::*m) { (g_ops.*m)++; }
inline constexpr std::memory_order cas_failure_order(std::memory_order m) {
    return m == std::memory_order_acq_rel ? std::memory_order_acquire
         : m == std::memory_order_release ? std::memory_order_relaxed : m;
}
} // namespace verif_detail

namespace std {

// ------------------------------------------------------------------ atomic
template<class T>
struct verif_atomic {
    std::atomic<T> _a;
    using value_type = T;

    verif_atomic() noexcept = default;
    constexpr verif_atomic(T v) noexcept : _a(v) {}
    verif_atomic(const verif_atomic &) = delete;
    verif_atomic &operator=(const verif_atomic &) = delete;

    void *id() const noexcept { return (void *)&_a; }

    T load(memory_order mo = memory_order_seq_cst) const noexcept {
        vrt::point(vrt::K_LOAD, this);
        T v = _a.load(mo);
        verif_detail::note_weak_read(id(), mo);
        verif_detail::ops_inc(&verif_detail::op_counters::atomic_ops);
        vrt::point(vrt::K_LOAD, this);
        return v;
    }
    operator T() const noexcept { return load(); }
    void store(T v, memory_order mo = memory_order_seq_cst) noexcept {
        vrt::point(vrt::K_STORE, this);
        _a.store(v, mo);
        verif_detail::ops_inc(&verif_detail::op_counters::atomic_ops);
        vrt::point(vrt::K_STORE, this);
    }
    T operator=(T v) noexcept { store(v); return v; }
    T exchange(T v, memory_order mo = memory_order_seq_cst) noexcept {
        vrt::point(vrt::K_RMW, this);
        T r = _a.exchange(v, mo);
        verif_detail::note_weak_read(id(), mo);
        verif_detail::ops_inc(&verif_detail::op_counters::atomic_ops);
        vrt::point(vrt::K_RMW, this);
        return r;
    }
    bool compare_exchange_weak(T &exp, T des, memory_order s, memory_order f) noexcept {
        vrt::point(vrt::K_CAS, this);
        bool ok;
        if (vrt::fault(vrt::K_CAS)) {
            // spurious failure (allowed by the standard for the weak form): behaves as a
            // failed comparison that loaded the current value
            exp = _a.load(f);
            ok = false;
            verif_detail::ops_inc(&verif_detail::op_counters::weak_cas_fail_injected);
        } else {
            ok = _a.compare_exchange_strong(exp, des, s, f);
        }
        if (!ok) verif_detail::note_weak_read(id(), f); else verif_detail::note_weak_read(id(), s);
        verif_detail::ops_inc(&verif_detail::op_counters::atomic_ops);
        vrt::point(vrt::K_CAS, this);
        return ok;
    }
    bool compare_exchange_weak(T &exp, T des, memory_order mo = memory_order_seq_cst) noexcept {
        return compare_exchange_weak(exp, des, mo, verif_detail::cas_failure_order(mo));
    }
    bool compare_exchange_strong(T &exp, T des, memory_order s, memory_order f) noexcept {
        vrt::point(vrt::K_CAS, this);
        bool ok = _a.compare_exchange_strong(exp, des, s, f);
        if (!ok) verif_detail::note_weak_read(id(), f); else verif_detail::note_weak_read(id(), s);
        verif_detail::ops_inc(&verif_detail::op_counters::atomic_ops);
        vrt::point(vrt::K_CAS, this);
        return ok;
    }
    bool compare_exchange_strong(T &exp, T des, memory_order mo = memory_order_seq_cst) noexcept {
        return compare_exchange_strong(exp, des, mo, verif_detail::cas_failure_order(mo));
    }
#define VERIF_RMW(name) \
    template<class U = T, class A = std::atomic<T>> auto name(U v, memory_order mo = memory_order_seq_cst) noexcept -> decltype(std::declval<A&>().name(v, mo)) { \
        vrt::point(vrt::K_RMW, this); auto r = _a.name(v, mo); verif_detail::note_weak_read(id(), mo); \
        verif_detail::ops_inc(&verif_detail::op_counters::atomic_ops); vrt::point(vrt::K_RMW, this); return r; }
    VERIF_RMW(fetch_add) VERIF_RMW(fetch_sub) VERIF_RMW(fetch_and) VERIF_RMW(fetch_or) VERIF_RMW(fetch_xor)
#undef VERIF_RMW
    T operator++() noexcept { return fetch_add(1) + 1; }
    T operator++(int) noexcept { return fetch_add(1); }
    T operator--() noexcept { return fetch_sub(1) - 1; }
    T operator--(int) noexcept { return fetch_sub(1); }
    T operator+=(T v) noexcept { return fetch_add(v) + v; }
    T operator-=(T v) noexcept { return fetch_sub(v) - v; }

    // strict wait/notify: only a notification on the same object wakes a waiter (the
    // standard guarantees nothing more; a missing notify is a bug we want to see)
    void wait(T old, memory_order mo = memory_order_seq_cst) const noexcept {
        vrt::point(vrt::K_WAIT, this);
        for (;;) {
            T v = _a.load(mo);
            verif_detail::note_weak_read(id(), mo);
            if (std::memcmp(&v, &old, sizeof(T)) != 0) break;
            vrt::block_on(this, "atomic.wait");
        }
        vrt::point(vrt::K_WAIT, this);
    }
    // NOTE: notify_* must not touch members: the waiter may already have destroyed the
    // object (sync_awaiter on the waiter's stack) - same as the real implementation,
    // which only hashes the address.
    void notify_one() noexcept {
        vrt::point(vrt::K_NOTIFY, this); vrt::wake(this, false); vrt::point(vrt::K_NOTIFY, this);
    }
    void notify_all() noexcept {
        vrt::point(vrt::K_NOTIFY, this); vrt::wake(this, true); vrt::point(vrt::K_NOTIFY, this);
    }
    bool is_lock_free() const noexcept { return _a.is_lock_free(); }
    static constexpr bool is_always_lock_free = std::atomic<T>::is_always_lock_free;
};

inline void verif_atomic_thread_fence(memory_order mo) noexcept {
    vrt::point(vrt::K_FENCE, nullptr);
    std::atomic_thread_fence(mo);
#ifdef VERIF_TSAN
    if (verif_detail::is_acq(mo)) {
        auto &l = verif_detail::tl_fence_log;
        for (int i = 0; i < l.n; i++) __tsan_acquire(l.addr[i]);
        l.n = 0;
    }
#endif
    verif_detail::ops_inc(&verif_detail::op_counters::fences);
    vrt::point(vrt::K_FENCE, nullptr);
}

// ------------------------------------------------------------------ mutex / cv
struct verif_mutex {
    std::mutex _m;
    vrt::MutexState _st;
    verif_mutex() noexcept = default;
    verif_mutex(const verif_mutex &) = delete;
    verif_mutex &operator=(const verif_mutex &) = delete;
    void lock() {
        vrt::mutex_acquire(&_st, true);
        _m.lock();
        verif_detail::ops_inc(&verif_detail::op_counters::mutex_ops);
        vrt::point(vrt::K_MUTEX, this);
    }
    bool try_lock() {
        if (!vrt::mutex_try_acquire(&_st)) { vrt::point(vrt::K_MUTEX, this); return false; }
        bool ok = _m.try_lock();
        if (!ok) vrt::die(vrt::EXIT_HARNESS, "verif_mutex: real mutex busy while virtually free");
        vrt::point(vrt::K_MUTEX, this);
        return true;
    }
    void unlock() {
        vrt::point(vrt::K_MUTEX, this);
        _m.unlock();
        vrt::mutex_release(&_st, true);
    }
    // used by the condition variable: no scheduling point
    void unlock_nopoint() { _m.unlock(); vrt::mutex_release(&_st, false); }
    void lock_nopoint() { vrt::mutex_acquire(&_st, false); _m.lock(); }
};

struct verif_condition_variable {
    verif_condition_variable() noexcept = default;
    verif_condition_variable(const verif_condition_variable &) = delete;
    verif_condition_variable &operator=(const verif_condition_variable &) = delete;

    void notify_one() noexcept { verif_detail::ops_inc(&verif_detail::op_counters::cv_ops); vrt::cv_notify(this, false); }
    void notify_all() noexcept { verif_detail::ops_inc(&verif_detail::op_counters::cv_ops); vrt::cv_notify(this, true); }

    // returns true on time-out
    bool wait_impl(std::unique_lock<verif_mutex> &lk, uint64_t deadline) {
        verif_mutex *m = lk.mutex();
        vrt::point(vrt::K_CV, this);
        verif_detail::ops_inc(&verif_detail::op_counters::cv_ops);
        if (vrt::fault(vrt::K_CV)) {
            // spurious wake-up: release, let others run, re-acquire, return
            m->unlock_nopoint();
            vrt::point(vrt::K_CV, this);
            m->lock_nopoint();
            vrt::point(vrt::K_CV, this);
            return false;
        }
        // atomic: no scheduling point between releasing the mutex and blocking on the cv
        m->unlock_nopoint();
        bool to = vrt::cv_block(this, deadline);
        m->lock_nopoint();
        vrt::point(vrt::K_CV, this);
        return to;
    }
    void wait(std::unique_lock<verif_mutex> &lk) { wait_impl(lk, vrt::NO_DEADLINE); }
    template<class Pred> void wait(std::unique_lock<verif_mutex> &lk, Pred p) { while (!p()) wait(lk); }
    template<class Clock, class Dur>
    cv_status wait_until(std::unique_lock<verif_mutex> &lk, const chrono::time_point<Clock, Dur> &tp) {
        uint64_t dl;
        if (tp == chrono::time_point<Clock, Dur>::max()) dl = vrt::NO_DEADLINE;
        else {
            auto ns = chrono::duration_cast<chrono::nanoseconds>(tp.time_since_epoch()).count();
            dl = ns < 0 ? 0 : (uint64_t)ns;
        }
        return wait_impl(lk, dl) ? cv_status::timeout : cv_status::no_timeout;
    }
    template<class Clock, class Dur, class Pred>
    bool wait_until(std::unique_lock<verif_mutex> &lk, const chrono::time_point<Clock, Dur> &tp, Pred p) {
        while (!p()) if (wait_until(lk, tp) == cv_status::timeout) return p();
        return true;
    }
    template<class Rep, class Period>
    cv_status wait_for(std::unique_lock<verif_mutex> &lk, const chrono::duration<Rep, Period> &d) {
        uint64_t dl = vrt::now_ns() + (uint64_t)chrono::duration_cast<chrono::nanoseconds>(d).count();
        return wait_impl(lk, dl) ? cv_status::timeout : cv_status::no_timeout;
    }
};

// ------------------------------------------------------------------ thread
struct verif_thread {
    using id = std::thread::id;
    using native_handle_type = int;
    int _id = -1;
    verif_thread() noexcept = default;
    verif_thread(const verif_thread &) = delete;
    verif_thread(verif_thread &&o) noexcept : _id(o._id) { o._id = -1; }
    verif_thread &operator=(verif_thread &&o) noexcept {
        if (joinable()) std::terminate();
        _id = o._id; o._id = -1; return *this;
    }
    template<class F, class... Args,
             class = std::enable_if_t<!std::is_same_v<std::remove_cvref_t<F>, verif_thread>>>
    explicit verif_thread(F &&f, Args &&... args) {
        vrt::exempt_scope ex;
        using Tup = std::tuple<std::decay_t<F>, std::decay_t<Args>...>;
        auto p = std::make_shared<Tup>(std::forward<F>(f), std::forward<Args>(args)...);
        _id = vrt::thread_create([p]() mutable {
            std::apply([](auto &&fn, auto &&... a) { std::invoke(std::move(fn), std::move(a)...); }, std::move(*p));
            // the callable dies inside the virtual thread's life time, like std::thread's
            vrt::exempt_scope ex2;
            p.reset();
        });
    }
    ~verif_thread() { if (joinable()) std::terminate(); }
    bool joinable() const noexcept { return _id >= 0; }
    void join() { if (!joinable()) throw std::system_error(std::make_error_code(std::errc::invalid_argument)); vrt::thread_join(_id); _id = -1; }
    void detach() { if (!joinable()) throw std::system_error(std::make_error_code(std::errc::invalid_argument)); vrt::thread_detach(_id); _id = -1; }
    id get_id() const noexcept { return _id < 0 ? id() : vrt::thread_os_id(_id); }
    static unsigned hardware_concurrency() noexcept { return 2; }
    void swap(verif_thread &o) noexcept { std::swap(_id, o._id); }
};

// ------------------------------------------------------------------ deque (ready queue log)
namespace verif_dq {
// The thread's ready queue (coro_queue::queue_impl::instance, one thread_local object per thread) is
// the only container whose node churn is not an allocation "of their own" of the primitives under
// test (DESIGN 2.4): the FIRST deque of coroutine handles a thread constructs gets an allocator that
// bypasses the counted global operator new. Any further deque of handles constructed on the same
// thread is some other container and allocates through the counted operator new like everything else.
struct tl_count_t { unsigned handle_deques = 0; };
inline thread_local tl_count_t tl_count;
template<class T> struct raw_alloc {
    using value_type = T;
    using propagate_on_container_move_assignment = std::true_type;
    using propagate_on_container_swap = std::true_type;
    bool counted;
    raw_alloc() : counted(++tl_count.handle_deques > 1) {}
    template<class U> raw_alloc(const raw_alloc<U> &o) noexcept : counted(o.counted) {}
    T *allocate(size_t n) { return static_cast<T *>(counted ? ::operator new(n * sizeof(T)) : std::malloc(n * sizeof(T))); }
    void deallocate(T *p, size_t) noexcept { if (counted) ::operator delete(p); else std::free(p); }
    template<class U> bool operator==(const raw_alloc<U> &o) const noexcept { return counted == o.counted; }
    template<class U> bool operator!=(const raw_alloc<U> &o) const noexcept { return counted != o.counted; }
};
struct log_t {
    // ring of (op, handle address); op: 1 push_back 2 pop_front 3 pop_back 4 push_front
    static constexpr int N = 4096;
    struct ev { uint8_t op; const void *h; };
    ev e[N]; unsigned n = 0; unsigned long raw_allocs = 0;
    void add(uint8_t op, const void *h) { if (n < N) e[n] = {op, h}; n++; }
};
inline thread_local log_t tl_log;
template<class T> struct is_handle : std::false_type {};
template<class P> struct is_handle<std::coroutine_handle<P>> : std::true_type {};
}

template<class T, class A = std::allocator<T>>
struct verif_deque : std::deque<T, std::conditional_t<verif_dq::is_handle<T>::value, verif_dq::raw_alloc<T>, A>> {
    using base = std::deque<T, std::conditional_t<verif_dq::is_handle<T>::value, verif_dq::raw_alloc<T>, A>>;
    using base::base;
    static constexpr bool logged = verif_dq::is_handle<T>::value;
    static const void *addr(const T &v) { if constexpr (logged) return v.address(); else return nullptr; }
    void push_back(const T &v) { if constexpr (logged) verif_dq::tl_log.add(1, addr(v)); base::push_back(v); }
    void push_back(T &&v) { if constexpr (logged) verif_dq::tl_log.add(1, addr(v)); base::push_back(std::move(v)); }
    void push_front(const T &v) { if constexpr (logged) verif_dq::tl_log.add(4, addr(v)); base::push_front(v); }
    void push_front(T &&v) { if constexpr (logged) verif_dq::tl_log.add(4, addr(v)); base::push_front(std::move(v)); }
    void pop_front() { if constexpr (logged) verif_dq::tl_log.add(2, addr(base::front())); base::pop_front(); }
    void pop_back() { if constexpr (logged) verif_dq::tl_log.add(3, addr(base::back())); base::pop_back(); }
};

// ------------------------------------------------------------------ clock
namespace chrono {
struct verif_system_clock {
    using duration = std::chrono::nanoseconds;
    using rep = duration::rep;
    using period = duration::period;
    using time_point = std::chrono::time_point<verif_system_clock, duration>;
    static constexpr bool is_steady = false;
    static time_point now() noexcept { return time_point(duration((rep)vrt::now_ns())); }
};
}

// ------------------------------------------------------------------ stop_source / token / callback
// Re-implemented over vrt primitives (DESIGN 2.3): libstdc++'s ~stop_callback blocks on a
// real semaphore for a callback that is parked on another virtual thread.
namespace verif_stop {
struct cb_base {
    cb_base *next = nullptr, *prev = nullptr;
    bool registered = false;
    bool *destroyed_flag = nullptr;   // set by the destructor when it runs inside its own callback
    virtual void run() noexcept = 0;
    virtual ~cb_base() = default;
};
struct state {
    verif_mutex mx;                // guards the list; interposed => scheduling points
    bool requested = false;
    cb_base *head = nullptr;
    cb_base *executing = nullptr;
    int executing_thread = -2;
    int owners = 0;               // source count (stop_possible)
    char done_key;                // wake key: "callback finished executing"
};
}

struct verif_stop_token;
struct verif_stop_source;
template<class Cb> struct verif_stop_callback;

struct verif_stop_token {
    std::shared_ptr<verif_stop::state> _s;
    verif_stop_token() noexcept = default;
    bool stop_requested() const noexcept {
        if (!_s) return false;
        std::lock_guard<verif_mutex> g(_s->mx);
        return _s->requested;
    }
    bool stop_possible() const noexcept { return (bool)_s; }
    friend bool operator==(const verif_stop_token &a, const verif_stop_token &b) noexcept { return a._s == b._s; }
};

struct verif_stop_source {
    std::shared_ptr<verif_stop::state> _s;
    verif_stop_source() { vrt::exempt_scope ex; _s = std::make_shared<verif_stop::state>(); }
    explicit verif_stop_source(std::nostopstate_t) noexcept {}
    verif_stop_token get_token() const noexcept { verif_stop_token t; t._s = _s; return t; }
    bool stop_possible() const noexcept { return (bool)_s; }
    bool stop_requested() const noexcept { return get_token().stop_requested(); }
    bool request_stop() noexcept {
        if (!_s) return false;
        auto s = _s;
        std::unique_lock<verif_mutex> lk(s->mx);
        if (s->requested) return false;
        s->requested = true;
        // run callbacks one at a time on this thread, most recently registered first
        while (s->head) {
            verif_stop::cb_base *cb = s->head;
            s->head = cb->next;
            if (s->head) s->head->prev = nullptr;
            cb->registered = false;
            s->executing = cb;
            s->executing_thread = vrt::self();
            bool destroyed = false;
            cb->destroyed_flag = &destroyed;
            lk.unlock();
            cb->run();
            lk.lock();
            if (!destroyed) cb->destroyed_flag = nullptr;
            s->executing = nullptr;
            s->executing_thread = -2;
            vrt::wake(&s->done_key, true);
        }
        return true;
    }
};

template<class Cb>
struct verif_stop_callback : verif_stop::cb_base {
    Cb _cb;
    std::shared_ptr<verif_stop::state> _s;
    template<class C>
    explicit verif_stop_callback(const verif_stop_token &t, C &&cb) : _cb(std::forward<C>(cb)), _s(t._s) { reg(); }
    template<class C>
    explicit verif_stop_callback(verif_stop_token &&t, C &&cb) : _cb(std::forward<C>(cb)), _s(std::move(t._s)) { reg(); }
    verif_stop_callback(const verif_stop_callback &) = delete;
    verif_stop_callback &operator=(const verif_stop_callback &) = delete;
    void run() noexcept override { _cb(); }
    void reg() {
        if (!_s) return;
        std::unique_lock<verif_mutex> lk(_s->mx);
        if (_s->requested) { lk.unlock(); _cb(); _s.reset(); return; }
        next = _s->head; prev = nullptr;
        if (next) next->prev = this;
        _s->head = this;
        registered = true;
    }
    ~verif_stop_callback() {
        if (!_s) return;
        std::unique_lock<verif_mutex> lk(_s->mx);
        if (registered) {
            if (prev) prev->next = next; else _s->head = next;
            if (next) next->prev = prev;
            registered = false;
            return;
        }
        // not registered any more: either already executed, or executing right now
        if (_s->executing == this) {
            if (_s->executing_thread == vrt::self()) {
                // destroyed from inside its own callback: do not wait
                if (destroyed_flag) *destroyed_flag = true;
                return;
            }
            // executing on another thread: wait until it has finished (standard semantics)
            while (_s->executing == this) {
                lk.mutex()->unlock_nopoint();
                vrt::block_on(&_s->done_key, "~stop_callback");
                lk.mutex()->lock_nopoint();
            }
        }
    }
};
template<class Cb> verif_stop_callback(verif_stop_token, Cb) -> verif_stop_callback<Cb>;

// ------------------------------------------------------------------ shared_ptr / weak_ptr
// Thin twins that add scheduling points around the operations that touch the reference counts (copy, release,
// assignment, reset, weak_ptr::lock, use_count); the counting itself is libstdc++'s.  signal, publisher and
// shared_future manage their shared states with these, so handle drops become schedulable events.
template<class T> struct verif_shared_ptr;
namespace verif_sp {
inline void pt(const void *o) { vrt::point(vrt::K_RMW, o); }
template<class Y, class T> using conv = std::enable_if_t<std::is_convertible_v<Y *, T *>>;
}
template<class T>
struct verif_shared_ptr : std::shared_ptr<T> {
    using base = std::shared_ptr<T>;
    constexpr verif_shared_ptr() noexcept = default;
    constexpr verif_shared_ptr(std::nullptr_t) noexcept {}
    template<class Y, class = verif_sp::conv<Y, T>> explicit verif_shared_ptr(Y *p) : base(p) {}
    template<class Y, class D, class = verif_sp::conv<Y, T>> verif_shared_ptr(Y *p, D d) : base(p, std::move(d)) {}
    verif_shared_ptr(const verif_shared_ptr &o) noexcept : base(pre(o)) { if (this->get()) verif_sp::pt(this); }
    verif_shared_ptr(verif_shared_ptr &&o) noexcept = default;
    template<class Y, class = verif_sp::conv<Y, T>> verif_shared_ptr(const verif_shared_ptr<Y> &o) noexcept : base(pre(o)) { if (this->get()) verif_sp::pt(this); }
    template<class Y, class = verif_sp::conv<Y, T>> verif_shared_ptr(verif_shared_ptr<Y> &&o) noexcept : base(static_cast<std::shared_ptr<Y> &&>(o)) {}
    // from the real thing (make_shared, weak_ptr::lock inside the twins)
    template<class Y, class = verif_sp::conv<Y, T>> verif_shared_ptr(std::shared_ptr<Y> &&o) noexcept : base(std::move(o)) {}
    template<class Y, class = verif_sp::conv<Y, T>> verif_shared_ptr(const std::shared_ptr<Y> &o) noexcept : base(o) {}
    ~verif_shared_ptr() { if (this->get()) { verif_sp::pt(this); base::reset(); verif_sp::pt(this); } }
    verif_shared_ptr &operator=(const verif_shared_ptr &o) noexcept { bool p = this->get() || o.get(); if (p) verif_sp::pt(this); base::operator=(o); if (p) verif_sp::pt(this); return *this; }
    verif_shared_ptr &operator=(verif_shared_ptr &&o) noexcept { bool p = this->get() != nullptr; if (p) verif_sp::pt(this); base::operator=(static_cast<base &&>(o)); if (p) verif_sp::pt(this); return *this; }
    template<class Y, class = verif_sp::conv<Y, T>> verif_shared_ptr &operator=(const verif_shared_ptr<Y> &o) noexcept { bool p = this->get() || o.get(); if (p) verif_sp::pt(this); base::operator=(static_cast<const std::shared_ptr<Y> &>(o)); if (p) verif_sp::pt(this); return *this; }
    template<class Y, class = verif_sp::conv<Y, T>> verif_shared_ptr &operator=(verif_shared_ptr<Y> &&o) noexcept { bool p = this->get() != nullptr; if (p) verif_sp::pt(this); base::operator=(static_cast<std::shared_ptr<Y> &&>(o)); if (p) verif_sp::pt(this); return *this; }
    verif_shared_ptr &operator=(std::nullptr_t) noexcept { reset(); return *this; }
    void reset() noexcept { bool p = this->get() != nullptr; if (p) verif_sp::pt(this); base::reset(); if (p) verif_sp::pt(this); }
    template<class Y> void reset(Y *y) { verif_sp::pt(this); base::reset(y); verif_sp::pt(this); }
    long use_count() const noexcept { verif_sp::pt(this); long r = base::use_count(); verif_sp::pt(this); return r; }
private:
    template<class Y> static const std::shared_ptr<Y> &pre(const verif_shared_ptr<Y> &o) noexcept { if (o.get()) verif_sp::pt(&o); return o; }
};
template<class T>
struct verif_weak_ptr : std::weak_ptr<T> {
    using base = std::weak_ptr<T>;
    constexpr verif_weak_ptr() noexcept = default;
    verif_weak_ptr(const verif_weak_ptr &) noexcept = default;
    verif_weak_ptr(verif_weak_ptr &&) noexcept = default;
    verif_weak_ptr &operator=(const verif_weak_ptr &) noexcept = default;
    verif_weak_ptr &operator=(verif_weak_ptr &&) noexcept = default;
    template<class Y, class = verif_sp::conv<Y, T>> verif_weak_ptr(const verif_shared_ptr<Y> &o) noexcept : base(static_cast<const std::shared_ptr<Y> &>(o)) {}
    template<class Y, class = verif_sp::conv<Y, T>> verif_weak_ptr(const verif_weak_ptr<Y> &o) noexcept : base(static_cast<const std::weak_ptr<Y> &>(o)) {}
    template<class Y, class = verif_sp::conv<Y, T>> verif_weak_ptr &operator=(const verif_shared_ptr<Y> &o) noexcept { base::operator=(static_cast<const std::shared_ptr<Y> &>(o)); return *this; }
    verif_shared_ptr<T> lock() const noexcept { verif_sp::pt(this); verif_shared_ptr<T> r(base::lock()); verif_sp::pt(this); return r; }
    bool expired() const noexcept { verif_sp::pt(this); bool r = base::expired(); verif_sp::pt(this); return r; }
};
template<class T, class... A>
verif_shared_ptr<T> verif_make_shared(A &&...a) { return verif_shared_ptr<T>(std::make_shared<T>(std::forward<A>(a)...)); }

} // namespace std

// ------------------------------------------------------------------ the renaming itself
#define atomic              verif_atomic
#define atomic_thread_fence verif_atomic_thread_fence
#define mutex               verif_mutex
#define condition_variable  verif_condition_variable
#define thread              verif_thread
#define deque               verif_deque
#define system_clock        verif_system_clock
#define stop_source         verif_stop_source
#define stop_token          verif_stop_token
#define stop_callback       verif_stop_callback
#define shared_ptr          verif_shared_ptr
#define weak_ptr            verif_weak_ptr
#define make_shared         verif_make_shared
