// fuzz_driver.cpp - libFuzzer entry over the SAME byte decoders (secondary driver, DESIGN 2.2).
// The input is the program; the schedule is the zero schedule (coverage-guided search is
// used for the history/sequence dimension, rapidcheck + sweep own the schedule dimension).
// Runs the case in-process; a verdict aborts so that libFuzzer saves the input as crash-*.
#include "runtime.h"
#include <cstdio>
#include <cstdlib>
#include <cstring>
#include <unistd.h>

namespace rt { void run_case_inprocess(const Case &c); }
namespace hz { extern bool g_abort_on_fail; }

extern "C" int LLVMFuzzerInitialize(int *, char ***) {
    hz::g_abort_on_fail = true;
    return 0;
}

extern "C" int LLVMFuzzerTestOneInput(const uint8_t *data, size_t size) {
    rt::Case c;
    size_t maxlen = hz::info().prog_max_len;
    c.prog.assign(data, data + (size < maxlen ? size : maxlen));
    rt::run_case_inprocess(c);
    return 0;
}
