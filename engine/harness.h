// harness.h - what a property harness (props/Cxx.cpp) sees of the engine.
#pragma once
#include <cstdint>
#include <cstddef>
#include <cstdarg>
#include <string>
#include <vector>
#include "vrt.h"

namespace hz {

// ---- byte reader: total decoder helper (missing bytes read as 0) ----
struct Reader {
    const uint8_t *p; size_t n; size_t i = 0; uint64_t h = 0xcbf29ce484222325ULL;
    Reader(const uint8_t *p_, size_t n_) : p(p_), n(n_) {}
    bool more() const { return i < n; }
    uint8_t raw() { return i < n ? p[i++] : (i++, 0); }
    void mixv(uint64_t v) { h = (h ^ v) * 0x100000001b3ULL; }
    uint8_t u8() { uint8_t v = raw(); mixv(v); return v; }
    // value in [0,m)
    unsigned mod(unsigned m) { unsigned v = m ? raw() % m : 0; mixv(v + 1000 * m); return v; }
    // value in [lo,hi]
    int range(int lo, int hi) { return lo + (int)mod((unsigned)(hi - lo + 1)); }
    bool flag() { return mod(2) != 0; }
};

// ---- result page shared between case child and parent ----
struct Shared {
    int code;                 // vrt::EXIT_*
    char msg[1024];
    uint8_t nontrivial;
    uint8_t finished;         // scenario ran to the end
    uint16_t cls;             // class id (harness-defined)
    uint64_t sig;             // signature of the executed case
    uint64_t counters[16];    // harness-defined counters (summed by the parent)
    vrt::Stats stats;
    unsigned long news, deletes, exempt_news, exempt_deletes;
};
Shared &shared();

// ---- oracle helpers (child side) ----
[[noreturn]] void fail(const char *fmt, ...) __attribute__((format(printf, 1, 2)));
#define HZ_CHECK(cond, ...) do { if (!(cond)) ::hz::fail(__VA_ARGS__); } while (0)
// (defined in runtime.cpp, which is never TSan-instrumented: bookkeeping stays invisible)
void set_class(unsigned c);
void set_nontrivial(bool b);
void sig_mix(uint64_t v);
void count(int idx, uint64_t d = 1);

void reset_case_state();           // engine-internal: trace, tick (called before every case)
// logical clock of the case, invisible to sanitizers (only the baton holder runs)
int tick();
// general-purpose counters, reset per case, invisible to sanitizers (instance counting etc.)
long slot_add(int i, long d); long slot_get(int i); void slot_set(int i, long v);
// live memory ranges: add -> 1 ok, 0 overlaps a live range; del -> 1 ok, 0 unknown, 2 size mismatch
int range_add(const void *p, size_t n); int range_del(const void *p, size_t n); int range_count();
void measure_begin(); unsigned long measure_end(); unsigned long measured_so_far();

// ---- allocation accounting (alloc.cpp) ----
struct AllocCounters { unsigned long news, deletes, exempt_news, exempt_deletes; unsigned long bytes; };
AllocCounters alloc_counters();
long alloc_balance();              // non-exempt news - deletes since process start
// per-thread measured region (C20): counts non-exempt news made by this thread while open
void region_open(); unsigned long region_close();

// ---- event trace, compiled without sanitizer instrumentation (trace in runtime.cpp) ----
struct Ev { uint16_t a; uint16_t b; int32_t c; int32_t d; int16_t thr; };
void trace(uint16_t a, uint16_t b = 0, int32_t c = 0, int32_t d = 0);
unsigned trace_size();
const Ev &trace_at(unsigned i);
std::string trace_tail(unsigned n);

// ---- what each property harness defines ----
struct Info {
    const char *property;       // "C07"
    int decoder_version;
    unsigned prog_max_len;      // generated prog length bound
    uint64_t max_points;        // livelock bound (scheduling points per case)
    bool uses_schedule;         // multi-threaded: generate schedules / sweep
    bool check_alloc_balance;   // generic end-of-case check news == deletes
    const char *rule;           // evidence: generation + non-triviality rule
    const char *const *class_names; unsigned n_classes;
    const char *const *counter_names; unsigned n_counters;
};
const Info &info();
void run_case(Reader &prog);                // runs on the main virtual thread; oracle inside
std::string describe(Reader &prog);         // decoded scenario as text (pure)

} // namespace hz
