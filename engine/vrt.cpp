// vrt.cpp - see vrt.h.  MUST be compiled without -fsanitize=thread.
#include "vrt.h"
#include <cstdarg>
#include <cstdio>
#include <cstring>
#include <cstdlib>
#include <unistd.h>
#include <sys/syscall.h>
#include <linux/futex.h>
#include <pthread.h>

namespace vrt {

thread_local int exempt_alloc_depth = 0;
void (*on_die)(int, const char *) = nullptr;

namespace {

enum St : uint8_t { S_RUN, S_BLK, S_FIN };

struct VT {
    int go = 0;
    St st = S_RUN;
    const void *key = nullptr;
    const char *why = "";
    uint64_t deadline = NO_DEADLINE;
    bool timed_out = false;
    bool detached = false;
    uint64_t stamp = 0;          // when the thread last received the baton (fair yield)
    int idle_yields = 0;         // consecutive yields during which nobody else could run
    std::function<void()> fn;
    pthread_t os{};
    bool os_joinable = false;
    int started = 0;
    std::thread::id osid;
};

constexpr int MAXT = 64;
VT *T[MAXT];
int NT = 0;
int cur = -1;
bool g_active = false;
thread_local int tl_self = -1;

const uint8_t *g_sched = nullptr; size_t g_slen = 0, g_spos = 0;
const uint8_t *g_faults = nullptr; size_t g_flen = 0, g_fpos = 0;
uint64_t g_max_points = 1000000;
uint64_t g_time = 0;
Stats S;
int alldone_key;

inline void park(VT *t) {
    for (;;) {
        if (__atomic_load_n(&t->go, __ATOMIC_RELAXED)) break;
        syscall(SYS_futex, &t->go, FUTEX_WAIT_PRIVATE, 0, nullptr, nullptr, 0);
    }
    __atomic_store_n(&t->go, 0, __ATOMIC_RELAXED);
    __atomic_thread_fence(__ATOMIC_SEQ_CST);
}
inline void unpark(VT *t) {
    __atomic_thread_fence(__ATOMIC_SEQ_CST);
    __atomic_store_n(&t->go, 1, __ATOMIC_RELAXED);
    syscall(SYS_futex, &t->go, FUTEX_WAKE_PRIVATE, 1, nullptr, nullptr, 0);
}

inline uint8_t next_byte(int alts) {
    uint8_t b = g_spos < g_slen ? g_sched[g_spos] : 0;
    g_spos++;
    if (S.decisions < (uint32_t)MAX_DEC) S.dec_alts[S.decisions] = (uint8_t)alts;
    S.decisions++;
    return b;
}

inline void mix(uint64_t v) {
    S.trace_hash = (S.trace_hash ^ v) * 0x100000001b3ULL + 0x9e3779b97f4a7c15ULL;
}

uint64_t g_stamp = 0;

void switch_to(int me, int tgt) {
    mix((uint64_t)tgt * 131 + 7);
    T[tgt]->stamp = ++g_stamp;
    T[me]->idle_yields = 0;
    cur = tgt;
    unpark(T[tgt]);
    park(T[me]);
}

void make_runnable(VT *t, bool timed_out) {
    if (t->st == S_BLK) {
        t->st = S_RUN; t->key = nullptr; t->deadline = NO_DEADLINE; t->timed_out = timed_out;
    }
}

void describe_blocked(char *buf, size_t n) {
    size_t o = 0;
    for (int i = 0; i < NT && o + 64 < n; i++) {
        VT *t = T[i];
        if (t->st == S_BLK) o += snprintf(buf + o, n - o, " T%d:%s", i, t->why);
        else if (t->st == S_RUN) o += snprintf(buf + o, n - o, " T%d:runnable", i);
    }
}

// Choose who runs next when `me` cannot continue (blocked or finished).  Returns target,
// advancing virtual time when everything is idle.  Dies on deadlock.
int choose_next() {
    for (;;) {
        int r[MAXT], k = 0;
        for (int i = 0; i < NT; i++) if (T[i]->st == S_RUN) r[k++] = i;
        if (k == 0) {
            uint64_t dl = NO_DEADLINE;
            bool unfinished = false;
            for (int i = 0; i < NT; i++) {
                if (T[i]->st == S_BLK) { unfinished = true; if (T[i]->deadline < dl) dl = T[i]->deadline; }
            }
            if (!unfinished) return -1;
            if (dl == NO_DEADLINE) {
                char buf[400]; buf[0] = 0; describe_blocked(buf, sizeof buf);
                die(EXIT_DEADLOCK, "deadlock: no runnable thread, blocked:%s", buf);
            }
            if (dl > g_time) g_time = dl;
            S.time_jumps++;
            for (int i = 0; i < NT; i++)
                if (T[i]->st == S_BLK && T[i]->deadline <= g_time) make_runnable(T[i], true);
            continue;
        }
        if (k == 1) return r[0];
        return r[next_byte(k) % k];
    }
}

void block_current(const void *key, const char *why, uint64_t deadline) {
    int me = tl_self;
    VT *t = T[me];
    t->st = S_BLK; t->key = key; t->why = why; t->deadline = deadline; t->timed_out = false;
    S.blocks++;
    if (deadline <= g_time) { make_runnable(t, true); }
    int tgt = choose_next();
    if (tgt == me) return;
    if (tgt < 0) die(EXIT_HARNESS, "vrt: nothing to run");
    switch_to(me, tgt);
}

void finish(int me) {
    VT *t = T[me];
    t->st = S_FIN;
    for (int i = 0; i < NT; i++)
        if (T[i]->st == S_BLK && (T[i]->key == (const void *)t || T[i]->key == &alldone_key)) make_runnable(T[i], false);
    int tgt = choose_next();
    if (tgt < 0) return;        // everything finished (main never finishes this way)
    mix((uint64_t)tgt * 131 + 11);
    T[tgt]->stamp = ++g_stamp;
    cur = tgt;
    unpark(T[tgt]);
}

inline bool live() {
    if (!g_active) return false;
    int me = tl_self;
    if (me < 0) return false;
    if (T[me]->st == S_FIN) return false;
    if (cur != me) die(EXIT_HARNESS, "vrt: thread %d runs without the baton (cur=%d)", me, cur);
    return true;
}

} // namespace

[[noreturn]] void die(int code, const char *fmt, ...) {
    char msg[900];
    va_list ap; va_start(ap, fmt); vsnprintf(msg, sizeof msg, fmt, ap); va_end(ap);
    if (on_die) on_die(code, msg);
    else { fprintf(stderr, "vrt: %s\n", msg); }
    _exit(code);
}

void init(const uint8_t *sched, size_t slen, const uint8_t *faults, size_t flen, uint64_t max_points) {
    ++exempt_alloc_depth;
    g_sched = sched; g_slen = slen; g_spos = 0;
    g_faults = faults; g_flen = flen; g_fpos = 0;
    g_max_points = max_points;
    g_time = 0; g_stamp = 0;
    S = Stats();
    NT = 0;
    VT *t = new VT;
    T[NT++] = t;
    t->osid = std::this_thread::get_id();
    tl_self = 0; cur = 0; S.threads = 1;
    g_active = true;
    --exempt_alloc_depth;
}

void shutdown() {
    ++exempt_alloc_depth;
    g_active = false;
    for (int i = 0; i < NT; i++) { delete T[i]; T[i] = nullptr; }
    NT = 0; cur = -1; tl_self = -1;
    --exempt_alloc_depth;
}

bool active() { return g_active; }
Stats &stats() { return S; }
int self() { return tl_self; }

void point(int kind, const void *obj) {
    (void)obj;
    if (!live()) return;
    int me = tl_self;
    if (++S.points > g_max_points)
        die(EXIT_LIVELOCK, "no progress: more than %llu scheduling points", (unsigned long long)g_max_points);
    int r[MAXT], k = 0;
    for (int i = 0; i < NT; i++) if (i != me && T[i]->st == S_RUN) r[k++] = i;
    if (!k) return;
    uint8_t b = next_byte(k + 1);
    if (b == 0) return;
    int tgt = r[(b - 1) % k];
    S.switches++;
    if (kind != K_USER) S.preempt_in_lib++;
    mix((uint64_t)kind * 1000003 + S.points);
    switch_to(me, tgt);
}

// forced, FAIR switch for harness polling loops: the other runnable thread that has not
// run for the longest time continues (no schedule byte is consumed, so a poller can never
// starve the thread it waits for).  If nobody else can run the poller re-checks its
// condition once; a second consecutive idle yield proves that it can never be satisfied.
void yield() {
    if (!live()) return;
    int me = tl_self;
    if (++S.points > g_max_points)
        die(EXIT_LIVELOCK, "no progress: more than %llu scheduling points", (unsigned long long)g_max_points);
    int tgt = -1;
    for (int i = 0; i < NT; i++)
        if (i != me && T[i]->st == S_RUN && (tgt < 0 || T[i]->stamp < T[tgt]->stamp)) tgt = i;
    if (tgt < 0) {
        // nobody else can run: if somebody waits for a deadline, let time pass
        uint64_t dl = NO_DEADLINE;
        for (int i = 0; i < NT; i++) if (T[i]->st == S_BLK && T[i]->deadline < dl) dl = T[i]->deadline;
        if (dl == NO_DEADLINE) {
            if (++T[me]->idle_yields >= 2) {
                char buf[400]; buf[0] = 0; describe_blocked(buf, sizeof buf);
                die(EXIT_DEADLOCK, "deadlock: polling thread T%d can never be satisfied, blocked:%s", me, buf);
            }
            return;
        }
        if (dl > g_time) g_time = dl;
        S.time_jumps++;
        for (int i = 0; i < NT; i++)
            if (T[i]->st == S_BLK && T[i]->deadline <= g_time) { make_runnable(T[i], true); if (tgt < 0) tgt = i; }
    }
    switch_to(me, tgt);
}

bool fault(int kind) {
    (void)kind;
    if (!live()) return false;
    if (g_fpos < g_flen) {
        uint8_t b = g_faults[g_fpos++];
        if (b & 1) { S.faults_used++; return true; }
    }
    return false;
}

uint64_t now_ns() { return g_time; }

void advance(uint64_t dt) {
    g_time += dt;
    if (!g_active) return;
    for (int i = 0; i < NT; i++)
        if (T[i]->st == S_BLK && T[i]->deadline <= g_time) make_runnable(T[i], true);
}

void sleep_until(uint64_t t_ns) {
    if (!live()) return;
    static int sleep_key;
    while (g_time < t_ns) block_current(&sleep_key, "sleep", t_ns);
}

void mutex_acquire(MutexState *m, bool with_point) {
    if (!live()) return;
    if (with_point) point(K_MUTEX, m);
    int me = tl_self;
    while (m->owner != -1) block_current(m, m->owner == me ? "mutex(self-deadlock)" : "mutex", NO_DEADLINE);
    m->owner = me;
}

bool mutex_try_acquire(MutexState *m) {
    if (!live()) return true;
    point(K_MUTEX, m);
    if (m->owner != -1) return false;
    m->owner = tl_self;
    return true;
}

void mutex_release(MutexState *m, bool with_point) {
    if (!live()) return;
    m->owner = -1;
    for (int i = 0; i < NT; i++) if (T[i]->st == S_BLK && T[i]->key == (const void *)m) make_runnable(T[i], false);
    if (with_point) point(K_MUTEX, m);
}

bool cv_block(const void *cv, uint64_t deadline_ns) {
    if (!live()) die(EXIT_HARNESS, "vrt: condition_variable wait outside a virtual thread");
    block_current(cv, deadline_ns == NO_DEADLINE ? "cv.wait" : "cv.wait_until", deadline_ns);
    return T[tl_self]->timed_out;
}

void wake(const void *key, bool all) {
    if (!live()) return;
    int w[MAXT], k = 0;
    for (int i = 0; i < NT; i++) if (T[i]->st == S_BLK && T[i]->key == key) w[k++] = i;
    if (!k) return;
    if (all) { for (int i = 0; i < k; i++) make_runnable(T[w[i]], false); return; }
    int v = k == 1 ? 0 : next_byte(k) % k;
    make_runnable(T[w[v]], false);
}

void cv_notify(const void *cv, bool all) {
    if (!live()) return;
    point(K_NOTIFY, cv);
    wake(cv, all);
    point(K_NOTIFY, cv);
}

void block_on(const void *key, const char *why) {
    if (!live()) die(EXIT_HARNESS, "vrt: blocking wait (%s) outside a virtual thread", why);
    block_current(key, why, NO_DEADLINE);
}

static void *thread_main(void *arg) {
    int id = (int)(intptr_t)arg;
    tl_self = id;
    T[id]->osid = std::this_thread::get_id();
    __atomic_thread_fence(__ATOMIC_SEQ_CST);
    __atomic_store_n(&T[id]->started, 1, __ATOMIC_RELAXED);
    syscall(SYS_futex, &T[id]->started, FUTEX_WAKE_PRIVATE, 1, nullptr, nullptr, 0);
    park(T[id]);
    T[id]->fn();
    { ++exempt_alloc_depth; T[id]->fn = nullptr; --exempt_alloc_depth; }
    finish(id);
    return nullptr;
}

int thread_create(std::function<void()> fn) {
    if (!g_active || tl_self < 0) die(EXIT_HARNESS, "vrt: thread created outside the virtual runtime");
    point(K_THREAD, nullptr);
    ++exempt_alloc_depth;
    if (NT >= MAXT) die(EXIT_HARNESS, "vrt: too many threads");
    VT *t = new VT;
    int id = NT;
    T[NT++] = t;
    S.threads++;
    t->fn = std::move(fn);
    t->st = S_RUN;
    // small explicit stacks: ASan clears the whole stack shadow at thread exit, which
    // dominates the cost of a case with the default 8 MB
    pthread_attr_t at; pthread_attr_init(&at); pthread_attr_setstacksize(&at, 1 << 20);
    int rc = pthread_create(&t->os, &at, thread_main, (void *)(intptr_t)id);
    pthread_attr_destroy(&at);
    if (rc != 0) die(EXIT_HARNESS, "vrt: pthread_create failed (%d)", rc);
    t->os_joinable = true;
    while (!__atomic_load_n(&t->started, __ATOMIC_RELAXED)) syscall(SYS_futex, &t->started, FUTEX_WAIT_PRIVATE, 0, nullptr, nullptr, 0);
    __atomic_thread_fence(__ATOMIC_SEQ_CST);
    --exempt_alloc_depth;
    point(K_THREAD, nullptr);
    return id;
}

void thread_join(int id) {
    if (!live()) die(EXIT_HARNESS, "vrt: join outside a virtual thread");
    point(K_THREAD, T[id]);
    while (T[id]->st != S_FIN) block_current(T[id], "join", NO_DEADLINE);
    if (T[id]->os_joinable) { pthread_join(T[id]->os, nullptr); T[id]->os_joinable = false; }
    point(K_THREAD, T[id]);
}

void thread_detach(int id) { T[id]->detached = true; }
bool thread_finished(int id) { return T[id]->st == S_FIN; }
std::thread::id thread_os_id(int id) { return T[id]->osid; }

void finish_main() {
    if (!g_active) return;
    if (tl_self != 0) die(EXIT_HARNESS, "vrt: finish_main from thread %d", tl_self);
    for (;;) {
        bool pending = false;
        for (int i = 1; i < NT; i++) if (T[i]->st != S_FIN) pending = true;
        if (!pending) break;
        block_current(&alldone_key, "end-of-case", NO_DEADLINE);
    }
    for (int i = 1; i < NT; i++) if (T[i]->os_joinable) { pthread_join(T[i]->os, nullptr); T[i]->os_joinable = false; }
}

} // namespace vrt
